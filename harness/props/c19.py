"""C19 — library names resolve to the right shared objects or fail loudly.

1. TLC model-checks tla/Shlibs.tla through tla/ShlibsMC.tla: the transcribed regular expression
   of _ldd_library_pattern and the matching loop of resolve_from_ldd_output (implementation layer,
   exact on characters; once as a small-step machine, once as one step per case) satisfy the clauses
   of C19 (property layer) on every listing of the configured bounds; tla/ShlibsWit.tla shows that the
   property layer rejects each of nine deliberate deviations of the implementation layer and produces
   the killer cases, a case outside the precondition, and the archives the code drops silently.
2. The cases TLC enumerated (exported with ndJsonSerialize, one file per vocabulary), the
   killer/witness cases, the listings of tests/scanner/test_shlibs.py and seeded random cases of the
   same abstract schema (ldd / otool / BSD ldd / wrapper / free-form styles; kept inside the
   quantifier of C19) are rendered to text and given to the REAL
   giscanner.shlibs.resolve_from_ldd_output + sanitize_shlib_path (and, for one in eight, to
   resolve_shlibs with the loader's output substituted); generated .la files go through the real
   resolve_shlibs -> extract_libtool_shlib.
3. Every observation is judged by TLC (tla/ShlibsTrace.tla, tla/ShlibsLaTrace.tla; batches in
   parallel) which computes the expected resolution with the spec's operators on the abstract case.
   Python never decides: it renders, runs, projects, and maps rejected ids to replay files.

quick: Shlibs_quick + Shlibs_wide + Shlibs_q22 + ShlibsWit (concurrently; every 4th case of Shlibs_wide
goes to the real code), 2500 random listings, 400 random archives.  thorough: additionally Shlibs_t32/t23/t33 (<=3 lines x <=3 words), the <=2x2 bound
exported completely, 40000 random listings, 4000 random archives.
"""
import glob, json, os, shutil, string, sys, types
from concurrent.futures import ThreadPoolExecutor

from ..common import Check, MachineryError, main_wrapper, REPO, NCPU

PID = 'C19'

# ---------------------------------------------------------------------------------------------
# abstract schema helpers (all text = lists of one-character strings, as TLC exports it)
# ---------------------------------------------------------------------------------------------

def mkword(dir='', pfx='', stem='', sep='', rest='', colon=False):
    """the structured view of a word [dir, prefix, stem, separator after the stem, rest, colon] -> its spelling
    (the same as ShlibsMC!W): dc = directory part, bc = base name"""
    return dict(dc=list(dir), bc=list(pfx + stem + sep + rest + (':' if colon else '')))


def tokword(text):
    """a literal word of a corpus listing -> schema (decomposition is not load-bearing: all of the
    base name goes into 'stem')"""
    k = text.rfind('/') + 1
    return mkword(dir=text[:k], stem=text[k:])


def word_text(w):
    return ''.join(w['dc']) + ''.join(w['bc'])


def render(case, hints=None):
    """THE renderer: words joined by blanks, lines by newlines.  hints (optional, semantic-free):
    per line [lead, sep, trail] and the newline string.  Trailing blanks are never put after a
    line whose last word ends in ':' (such a line is a header by definition)."""
    hints = hints or {}
    nl = hints.get('nl', '\n')
    per = hints.get('lines', [])
    lines = []
    for i, line in enumerate(case['listing']):
        lead, sep, trail = per[i] if i < len(per) else ('\t', ' ', '')
        txt = lead + sep.join(word_text(w) for w in line)
        if not txt.endswith(':'):
            txt += trail
        lines.append(txt)
    return nl.join(lines) + (nl if hints.get('final_nl') and lines else '')


def chars(s):
    return list(s)


def S(cs):
    return ''.join(cs)


# The quantifier of C19, generator side ("requested name lists in which no single listed file could
# satisfy two requests"): used ONLY to keep the random generator inside the quantifier (TLC recomputes
# the precondition on every record with Shlibs!Judge.dom and reports records outside it as OUTSIDE).
IDCHARS = set(string.ascii_letters + string.digits + '_-')


def _matches_base(bc, req):
    p = 'lib' + req
    return len(bc) > len(p) and bc.startswith(p) and bc[len(p)] not in IDCHARS


def _is_header(line):
    return bool(line) and word_text(line[-1]).endswith(':')


def ambiguous_words(reqs, listing):
    """[(line index, word index, [request indexes])] of the words outside header lines whose base name
    satisfies two requests (a request listed twice counts twice)"""
    out = []
    for i, line in enumerate(listing):
        if _is_header(line):
            continue
        for j, w in enumerate(line):
            hit = [k for k, q in enumerate(reqs) if _matches_base(S(w['bc']), q)]
            if len(hit) > 1:
                out.append((i, j, hit))
    return out


# ---------------------------------------------------------------------------------------------
# seeded random generator (same schema, beyond the exhaustive bound)
# ---------------------------------------------------------------------------------------------
STEMS = ['foo', 'pango', 'glib-2.0', 'gtk-3', 'gtk+-3', 'stdc++', 'X', 'gepub-0.6', 'gd', 'foo.bar', 'a|b', 'x[1]',
         'sigc++-2.0', 'z', 'cairo', 'barapp-1.0', 'a*b', 'q?', '(p)', 'n{2}', 'b\\d', '^up', 'dollar$', '#hash', 'c,d', 'e=f']
TAILS = ['ft2', '-1.0', 'cairo', '_x', '2', '-bar', 'bar', '.bar', '+', '++', '-gobject', 'x', '.0', '~', '|b', '[1]']
DIRS = ['', '', '/usr/lib/', '/usr/lib/x86_64-linux-gnu/', '/usr/local/lib/', '/lib64/', '@rpath/', '@loader_path/../lib/',
        '../lib/', './', '/foo/', '/opt/my-app/lib/']
RESTS = ['so', 'so.0', 'so.1', 'so.0.5800.3', 'so.6.0.30', 'dylib', '0.dylib', 'dll', 'a', 'la', '', 'so.1.2.3']
SEPS_OK = ['.', '.', '.', '.', '+', ':', '~', ',', '=', '@', '.', '%']      # not in [A-Za-z0-9_-]
SEPS_ID = ['-', '_', '2', 'x', 'Z', '0', '-', '']                          # identifier characters / nothing


class Gen:
    def __init__(self, rng):
        self.r = rng

    def names(self):
        r = self.r
        base = r.choice(STEMS)
        pool = [base]
        for _ in range(r.randint(1, 4)):
            k = r.random()
            if k < 0.45:
                pool.append(base + r.choice(TAILS))            # base is a prefix of it
            elif k < 0.6:
                pool.append('lib' + base)                       # base is a suffix of it
            elif k < 0.7 and len(base) > 1:
                pool.append(base[:-1])                          # a prefix of base
            elif k < 0.8 and len(base) > 1:
                pool.append(base[1:])                           # a suffix of base
            else:
                pool.append(r.choice(STEMS))
        return pool

    def libword(self, stem, req_pool):
        r = self.r
        k = r.random()
        d = r.choice(DIRS)
        if k < 0.12 and req_pool:                               # a directory that looks like a requested library
            q = r.choice(req_pool)
            d = r.choice(['/usr/lib/', '/opt/', '/home/u/', '']) + 'lib' + q + r.choice(['', '-1.0', '.d', '.so.1', '.framework']) + '/' \
                + r.choice(['', 'modules/', '.libs/'])
        pfx = 'lib' if r.random() < 0.88 else r.choice(['', 'liblib', 'xlib', 'Lib', 'cyg', '_lib'])
        if r.random() < 0.72:
            sep = r.choice(SEPS_OK)
        else:
            sep = r.choice(SEPS_ID)
        rest = r.choice(RESTS)
        if sep == '' and r.random() < 0.7:
            rest = ''
        colon = r.random() < 0.04
        if r.random() < 0.03:
            return mkword(dir=d if d else '/x/', pfx='', stem='', sep='', rest='')      # a bare directory word
        return mkword(dir=d, pfx=pfx, stem=stem, sep=sep, rest=rest, colon=colon)

    def hexw(self, n=16):
        return mkword(stem='%0*x' % (n, self.r.getrandbits(4 * n)))

    def case(self):
        r = self.r
        pool = self.names()
        nreq = r.choice([1, 1, 2, 2, 2, 3, 4])
        pool = list(dict.fromkeys(pool))                        # requests are distinct names
        reqs = r.sample(pool, min(nreq, len(pool)))
        # which libraries the binary links: requested ones (mostly), siblings, unrelated
        listed = []
        for q in reqs:
            if r.random() < 0.85:
                listed.append(q)
            if r.random() < 0.25:
                listed.append(q)                                # twice: different directory / version
        for p in pool:
            if p not in reqs and r.random() < 0.7:
                listed.append(p)
        for _ in range(r.randint(0, 3)):
            listed.append(r.choice(['c', 'm', 'dl', 'pthread', 'glib-2.0', 'ffi', 'pcre', 'System.B']))
        r.shuffle(listed)
        style = r.choice(['ldd', 'ldd', 'otool', 'bsd', 'wrapper', 'bare'])
        lines, hints = [], []
        binary = r.choice(['/tmp/tmp-introspect8a1/', '/build/tmp-introspectnxmy/', './', '/usr/ports/pobj/libgepub-0.6.0/build-amd64/tmp-introspectq/'])
        binname = r.choice(['Foo-1.0', 'prog', 'lib' + r.choice(reqs) + '.so.999', 'lib' + r.choice(reqs), r.choice(reqs) + '-1.0'])
        header = [mkword(dir=binary, stem=binname, colon=True)]
        if style == 'wrapper':
            for _ in range(r.randint(1, 3)):
                k = r.random()
                if k < 0.35:
                    lines.append([mkword(stem='libtool'), mkword(stem='execute', colon=True)] if r.random() < 0.5 else
                                 [mkword(stem='libtool', colon=True), mkword(stem='execute', colon=True), mkword(stem='ldd'),
                                  mkword(dir=binary + '.libs/', stem=binname)])
                elif k < 0.7:
                    lines.append([mkword(stem='Running'), mkword(stem='ldd'), mkword(stem='on'), self.libword(r.choice(pool), reqs)])
                else:
                    lines.append([mkword(stem='wine', colon=True)] + [mkword(stem=r.choice(['fixme', 'loaded', 'module']))] + [self.libword(r.choice(pool), reqs), mkword(stem='ok', colon=r.random() < 0.5)])
                hints.append(('', ' ', ''))
            style = r.choice(['ldd', 'otool', 'bsd'])
        if style == 'ldd':
            if r.random() < 0.5:
                lines.append([mkword(stem='linux-vdso', sep='.', rest='so.1'), mkword(stem='(0x00007ffd)')])
                hints.append(('\t', ' ', ''))
            for stem in listed:
                w = self.libword(stem, reqs)
                soname = dict(w, dc=[])
                k = r.random()
                if not w['bc']:                                 # a bare directory word has no soname
                    lines.append([w, mkword(stem='(0x%012x)' % r.getrandbits(44))])
                elif k < 0.7:
                    full = w if w['dc'] else dict(w, dc=chars('/usr/lib/'))
                    lines.append([soname, mkword(stem='=>'), full, mkword(stem='(0x%012x)' % r.getrandbits(44))])
                elif k < 0.8:
                    lines.append([soname, mkword(stem='=>'), mkword(stem='not'), mkword(stem='found')])
                else:
                    lines.append([w, mkword(stem='(0x%012x)' % r.getrandbits(44))])
                hints.append((r.choice(['\t', '        ', '            ']), ' ', r.choice(['', '', ' '])))
        elif style == 'otool':
            if r.random() < 0.85:
                lines.append(header)
                hints.append(('', ' ', ''))
            for stem in listed:
                w = self.libword(stem, reqs)
                lines.append([w, mkword(stem='(compatibility'), mkword(stem='version'), mkword(stem='5801.0.0,'), mkword(stem='current'),
                              mkword(stem='version'), mkword(stem='5801.3.0)')])
                hints.append(('\t', ' ', ''))
        elif style == 'bsd':
            if r.random() < 0.85:
                lines.append(header)
                hints.append(('', ' ', ''))
            lines.append([mkword(stem=x) for x in ['Start', 'End', 'Type', 'Open', 'Ref', 'GrpRef', 'Name']])
            hints.append(('\t', ' ', ''))
            lines.append([self.hexw(), self.hexw(), mkword(stem='exe'), mkword(stem='2'), mkword(stem='0'), mkword(stem='0'),
                          mkword(dir=binary, stem=binname)])
            hints.append(('\t', ' ', ''))
            for stem in listed:
                lines.append([self.hexw(), self.hexw(), mkword(stem='rlib'), mkword(stem='0'), mkword(stem='1'), mkword(stem='0'),
                              self.libword(stem, reqs)])
                hints.append(('\t', r.choice([' ', '  ', ' \t']), ''))
        else:   # bare: words in any arrangement, several libraries per line, empty lines
            words = [self.libword(s, reqs) for s in listed]
            while words:
                k = r.randint(0, 3)
                lines.append(words[:k])
                words = words[k:]
                hints.append((r.choice(['', ' ', '\t']), r.choice([' ', '  ', '\t']), r.choice(['', ' ', '\t'])))
            if r.random() < 0.3:
                pos = r.randint(0, len(lines))
                lines.insert(pos, header)
                hints.insert(pos, ('', ' ', ''))
        # stay inside the quantifier: while some listed file satisfies two requests, either withdraw the
        # later of the two requests or take the file out of the listing
        while True:
            amb = ambiguous_words(reqs, lines)
            if not amb:
                break
            i, j, hit = amb[0]
            if r.random() < 0.5:
                del reqs[hit[-1]]
            else:
                del lines[i][j]
        case = dict(t='ldd', reqs=[chars(q) for q in reqs], files=[], listing=lines)
        h = dict(nl=r.choice(['\n', '\n', '\n', '\r\n']), lines=[list(x) for x in hints], final_nl=r.random() < 0.7)
        return case, h

    # ---- libtool archives
    def la(self):
        r = self.r
        stem = r.choice(STEMS[:14]).replace('|', '').replace('[', '').replace(']', '')
        if r.random() < 0.35:
            # names with an underscore (libgdk_pixbuf-2.0), '+' and mixed case: every character class
            # a real soname uses must survive the dlname pattern
            stem = r.choice(['gdk_pixbuf-2.0', 'my_plugin', 'a_b_c', 'X_y', 'stdc++', 'foo_', 'Qt5_Core'])
        so = 'lib%s.so.%d' % (stem, r.randint(0, 9))
        kind = r.choice(['plain', 'plain', 'plain', 'path', 'path', 'empty', 'absent', 'plain_dll'])
        if kind == 'plain':
            dl = so
        elif kind == 'plain_dll':
            dl = 'lib%s-%d.dll' % (stem, r.randint(0, 9))
        elif kind == 'path':
            dl = r.choice(['.libs/', '../bin/', '/usr/lib/', 'sub/dir/']) + r.choice([so, 'cyg%s-0.dll' % stem])
        else:
            dl = ''
        name = 'lib%s.la' % stem
        lines = ['# %s - a libtool library file' % name, '# Generated by libtool (GNU libtool) 2.4.7', '#',
                 '# Please DO NOT delete this file!', '# It is necessary for linking the library.', '',
                 '# The name that we can dlopen(3).']
        if kind != 'absent':
            lines.append("dlname='%s'" % dl)
        lines += ['', '# Names of this library.',
                  "library_names='%s'" % ('' if kind == 'empty' else '%s.0.0 %s lib%s.so' % (so, so, stem)), '',
                  '# The name of the static archive.', "old_library='lib%s.a'" % stem, '',
                  "inherited_linker_flags=''", "dependency_libs=' -lm'", "weak_library_names=''",
                  'current=0', 'age=0', 'revision=0', 'installed=%s' % r.choice(['yes', 'no']), 'shouldnotlink=no',
                  "dlopen=''", "dlpreopen=''", "libdir='%s'" % r.choice(['/usr/lib', '/usr/local/lib', '/opt/x/lib'])]
        if r.random() < 0.2:     # field order differs between libtool versions
            i = [k for k, l in enumerate(lines) if l.startswith('libdir=')][0]
            lines.insert(6, lines.pop(i))
        return dict(t='la', name=chars(name), lines=[chars(l) for l in lines])


# the listings of tests/scanner/test_shlibs.py as extra cases (tokenised into the schema)
CORPUS = [
    (['glib-2.0', 'gtk-3', 'pango-1.0'],
     '''            libglib-2.0.so.0 => /usr/lib/x86_64-linux-gnu/libglib-2.0.so.0 (0x00007fbe12d68000)
            libgtk-3.so.0 => /usr/lib/x86_64-linux-gnu/libgtk-3.so.0 (0x00007fbe12462000)
            libgdk-3.so.0 => /usr/lib/x86_64-linux-gnu/libgdk-3.so.0 (0x00007fbe1216c000)
            libpango-1.0.so.0 => /usr/lib/x86_64-linux-gnu/libpango-1.0.so.0 (0x00007fbe11d1a000)
            libatk-1.0.so.0 => /usr/lib/x86_64-linux-gnu/libatk-1.0.so.0 (0x00007fbe11af4000)'''),
    (['barapp-1.0'],
     '''            @rpath/libbarapp-1.0.dylib (compatibility version 0.0.0, current version 0.0.0)
            /foo/libgio-2.0.0.dylib (compatibility version 5801.0.0, current version 5801.3.0)
            /foo/libgmodule-2.0.0.dylib (compatibility version 5801.0.0, current version 5801.3.0)'''),
    (['foo'], ''),
    (['X'], '           /usr/lib/liblibX.so\n           /usr/lib/libX.so'),
    (['libX'], '           /usr/lib/liblibX.so\n           /usr/lib/libX.so'),
    (['pango'],
     '''            libpangocairo.so.0 => /usr/lib/x86_64-linux-gnu/libpangocairo.so.0 (0x00)
            libpangoft2.so.0 => /usr/lib/x86_64-linux-gnu/libpangoft2.so.0 (0x00)
            libpango.so.0 => /usr/lib/x86_64-linux-gnu/libpango.so.0 (0x00)'''),
    (['foo'], '''/tmp-introspection/libfoo.so.999:
            0000000000000000 0000000000000000 rlib  0    3   0      /usr/local/lib/libfoo.so.1'''),
    (['gepub-0.6'], '''/usr/ports/pobj/libgepub-0.6.0/build-amd64/tmp-introspectnxmyodg1/Gepub-0.6:
            Start            End              Type  Open Ref GrpRef Name
            00001066c8400000 00001066c8605000 exe   2    0   0      /usr/ports/pobj/libgepub-0.6.0/build-amd64/tmp-introspectnxmyodg1/Gepub-0.6
            000010690019c000 00001069003a8000 rlib  0    1   0      /usr/local/lib/libgepub-0.6.so.0.0'''),
    (['gd'], '''/usr/ports/pobj/gnome-music-3.28.1/build-amd64/tmp-introspectuz5xaun3/Gd-1.0:
            Start            End              Type  Open Ref GrpRef Name
            0000070e40f00000 0000070e41105000 exe   2    0   0      /usr/ports/pobj/gnome-music-3.28.1/build-amd64/tmp-introspectuz5xaun3/Gd-1.0
            00000710f9b39000 00000710f9d51000 rlib  0    1   0      /usr/ports/pobj/gnome-music-3.28.1/build-amd64/subprojects/libgd/libgd/libgd.so'''),
    (['foo'], '/usr/lib/libfoo.so'),
]


def corpus_cases():
    out = []
    for reqs, text in CORPUS:
        listing = [[tokword(w) for w in line.split(' ') if w] for line in text.split('\n')] if text else []
        out.append(dict(t='ldd', reqs=[chars(q) for q in reqs], files=[], listing=listing))
    return out


# ---------------------------------------------------------------------------------------------
# running the real code
# ---------------------------------------------------------------------------------------------
class Real:
    def __init__(self, ck):
        from .. import gistub
        gistub.install()
        import giscanner.shlibs as shlibs
        self.shlibs = shlibs
        self.ck = ck
        self.cwd = os.path.join(ck.tmp, 'cwd')       # empty working directory: no request names an existing file
        os.makedirs(self.cwd)
        self.ladir = os.path.join(ck.tmp, 'la')
        os.makedirs(self.ladir)
        self.nla = 0
        self.platform = sys.platform

    def _project(self, fn):
        try:
            res = fn()
            return dict(kind='ok', out=[chars(x if isinstance(x, str) else repr(x)) for x in (res if isinstance(res, (list, tuple)) else [res])],
                        msgc=[])
        except SystemExit as e:
            return dict(kind='exit', out=[], msgc=chars(str(e.code)))
        except Exception as e:                     # anything else is neither a resolution nor the error C19 asks for
            return dict(kind='other', out=[], msgc=chars('%s: %s' % (type(e).__name__, e)))

    def ldd(self, reqs, files, text, via_api=False):
        sh = self.shlibs
        old = os.getcwd()
        os.chdir(self.cwd)
        try:
            for f in files:
                open(f, 'w').close()
            if via_api:
                # the public entry point with the loader's output substituted (ldd_wrapper path)
                options = types.SimpleNamespace(nolibtool=True, libtool_path=None, ldd_wrapper=['c19-fake-ldd'])
                binary = types.SimpleNamespace(args=['/nonexistent/tmp-introspect/prog'])
                real_sub = sh.subprocess
                sh.subprocess = types.SimpleNamespace(check_output=lambda args, **kw: text.encode('utf-8'))
                try:
                    return self._project(lambda: sh.resolve_shlibs(options, binary, list(reqs)))
                finally:
                    sh.subprocess = real_sub
            return self._project(lambda: [sh.sanitize_shlib_path(x) for x in sh.resolve_from_ldd_output(list(reqs), text)])
        finally:
            for f in files:
                try:
                    os.unlink(f)
                except OSError:
                    pass
            os.chdir(old)

    def la(self, name, lines):
        self.nla += 1
        d = os.path.join(self.ladir, str(self.nla))
        os.makedirs(d)
        path = os.path.join(d, name)
        with open(path, 'w', encoding='utf-8') as f:
            f.write(''.join(l + '\n' for l in lines))
        try:
            return self._project(lambda: self.shlibs.resolve_shlibs(None, None, [path]))
        finally:
            shutil.rmtree(d, ignore_errors=True)


def load_ndjson(path):
    out = []
    with open(path) as f:
        for line in f:
            line = line.strip()
            if line:
                out.append(json.loads(line))
    return out


def mc_many(ck, runs):
    """ck.tlc_mc for several independent configurations at a time (each TLC spends about half of its
    time single-threaded, generating initial states).  Same bookkeeping as Check.tlc_mc, done here in
    the calling thread; a configuration that does not complete cleanly is a machinery failure."""
    def one(r):
        extra = ['-coverage', '1'] if r.get('coverage') else []
        return ck._tlc(r['module'] + '.tla', r['cfg'], extra, r.get('env'), r.get('timeout', 7500), r.get('workers') or NCPU)

    with ThreadPoolExecutor(max_workers=max(1, min(len(runs), NCPU // 4))) as ex:      # 16 cores: 4 at a time; <= 7 cores: one at a time
        results = list(ex.map(one, runs))
    for r, res in zip(runs, results):
        ck.cov['states'] += res['distinct']
        ck.cov['transitions'] += res['generated']
        ck.cov['tlc_runs'].append(dict(module=r['module'], cfg=r['cfg'], label=r.get('label'), generated=res['generated'],
                                       distinct=res['distinct'], depth=res['depth'], wall_s=res['wall_s'], ok=res['ok'], mode='exhaustive',
                                       violated=res.get('violated'),
                                       actions_never_taken=sorted(a for a, (d, g) in res['coverage'].items() if g == 0)))
    for r, res in zip(runs, results):
        if not res['ok']:
            raise MachineryError('TLC on %s/%s did not complete cleanly: %s\n%s' % (r['module'], r['cfg'], res.get('error'), res['out'][-3000:]))


def verdicts(ck, module, obs, chunk, jobs, timeout=7500):
    """ck.tlc_verdict for many records: the batches are independent, so they are judged by several TLC
    processes at a time (same protocol: TRACE_FILE in, VERDICT_FILE out, totality check on n)."""
    parts = [obs[k:k + chunk] for k in range(0, len(obs), chunk)]

    def one(arg):
        k, part = arg
        tf = os.path.join(ck.tmp, 'obs-%s-p%d.json' % (module, k))
        vf = os.path.join(ck.tmp, 'verdict-%s-p%d.json' % (module, k))
        with open(tf, 'w') as f:
            json.dump(part, f)
        r = ck._tlc(module + '.tla', module + '.cfg', [], dict(TRACE_FILE=tf, VERDICT_FILE=vf), timeout, 1)
        if not os.path.exists(vf):
            raise MachineryError('trace spec %s produced no verdict:\n%s' % (module, r['out'][-3000:]))
        v = json.load(open(vf))
        if v.get('n') != len(part):
            raise MachineryError('trace spec %s consumed %s of %d records' % (module, v.get('n'), len(part)))
        os.unlink(tf)
        return v, r['wall_s']

    rejected, exercised, walls = [], {}, []
    with ThreadPoolExecutor(max_workers=max(1, jobs)) as ex:
        for v, w in ex.map(one, enumerate(parts)):
            rejected += [tuple(x) for x in v.get('rejected', [])]
            for c, cnt in v.get('exercised', {}).items():
                exercised[c] = exercised.get(c, 0) + cnt
            walls.append(w)
    ck.cov['traces_validated_against_impl'] += len(obs)
    ev = ck.cov.setdefault('clauses_exercised', {})
    for c, cnt in exercised.items():
        ev[c] = ev.get(c, 0) + cnt
    ck.cov.setdefault('verdict_runs', []).append(dict(module=module, records=len(obs), batches=len(parts), jobs=jobs,
                                                      tlc_wall_s_sum=round(sum(walls), 1), tlc_wall_s_max=max(walls) if walls else 0))
    return rejected, exercised


def run():
    ck = Check(PID, 'model_checking')
    a = ck.args
    ck.assumptions += [
        'giscanner._giscanner stubbed (unused by giscanner.shlibs)',
        'sys.platform / platform.system() are those of this host (linux): sanitize_shlib_path and extract_libtool_shlib take their non-Darwin branch',
        'names and listings are printable ASCII; "letter" and "digit" mean [A-Za-z] and [0-9]; requests contain no "/" and no blanks',
        'a header line is a line whose text ends in ":" (no trailing blanks after the colon)',
        'the renderer (harness/props/c19.py:render, word_text) joins the characters of the abstract case verbatim: words by blanks, lines by \\n or \\r\\n',
        'C19 is read as a statement about library NAMES: a request that names an existing file in the working directory gets no pattern by design '
        '(the "library given as a path" input form, same test in ccompiler.get_external_link_flags) and the property layer is silent about it '
        '(Shlibs!Named); calls run in an empty working directory except for the explicit probes (counted as ExistingFile, noted as FILE-SKIPPED)',
        'the random generator keeps to the quantifier (no listed file satisfies two requests; requests distinct) by withdrawing a request or a listed file; '
        'TLC recomputes the precondition on every record (InDomain) and a random case outside it is a machinery failure',
        'observed composition for the ldd path is map(sanitize_shlib_path, resolve_from_ldd_output(libraries, output)) as in _resolve_non_libtool; one case in eight additionally goes through resolve_shlibs with subprocess.check_output substituted',
        '.la files are well-formed libtool output (one assignment per line, every line newline-terminated); the property-level dlname is the value of the first line dlname=\'...\'',
    ]
    real = Real(ck)
    cases = []          # (id, case, hints, src)
    la_cases = []       # (id, archive, src)
    wit = None

    if a.replay:
        # a replay file records one input (written by Check.finish for a violation) or a list of them
        # ("suite": all inputs of a run, written when C19_SUITE_OUT is set); both are re-run exactly
        # against the current tree and judged again by TLC
        rp = json.load(open(a.replay))['replay']
        for one in rp.get('suite', [rp]):
            if one['case']['t'] == 'la':
                la_cases.append((one['id'], one['case'], 'replay'))
            else:
                cases.append((one['id'], one['case'], one.get('hints'), 'replay'))
    else:
        # ---------------------------------------------------------------- 1. model checking
        exports = []
        witf = os.path.join(ck.tmp, 'witness.json')

        def mc(cfg, label, coverage=False, workers=None, timeout=7500):
            exp = os.path.join(ck.tmp, 'export-%s' % cfg)          # TLC writes <exp>.<theme>
            exports.append((cfg, exp))
            return dict(module='ShlibsMC', cfg=cfg + '.cfg', env={'C19_EXPORT': exp}, coverage=coverage, label=label, workers=workers, timeout=timeout)

        half = max(2, NCPU // 2) if NCPU >= 8 else NCPU      # concurrent runs share the cores (see mc_many)
        first = [
            mc('Shlibs_quick', 'exhaustive, small steps (one action per line class / word outcome): 5 vocabularies x <=2 lines (possibly empty) x 1 word '
                               'x request lists (also the empty list and a first request naming an existing file); archives <=2 lines', coverage=True, workers=half),
            mc('Shlibs_wide', 'exhaustive: full structured word alphabet (dir x prefix x stem x separator x rest x colon), one word, 5 request lists', workers=half),
            mc('Shlibs_q22' if ck.quick else 'Shlibs_q22x',
               'exhaustive: 5 vocabularies x <=2 lines x <=2 words x request lists' + ('' if ck.quick else ', every case exported to the real code'), workers=half),
            dict(module='ShlibsWit', cfg='ShlibsWit.cfg', env={'C19_WITNESS': witf}, workers=1, timeout=4500,
                 label='property layer rejects every deviation of the implementation layer (killer cases); witnesses outside the precondition'),
        ]
        mc_many(ck, first)
        if not ck.quick:
            for r in [mc('Shlibs_t32', 'exhaustive: 5 vocabularies x <=3 lines x <=2 words'),
                      mc('Shlibs_t23', 'exhaustive: 5 vocabularies x <=2 lines x <=3 words'),
                      mc('Shlibs_t33', 'exhaustive: 3 reduced vocabularies x <=3 lines x <=3 words x 2 requests')]:
                mc_many(ck, [r])
        ck.cov['exhaustive'] = True
        wit = json.load(open(witf))
        ck.cov['spec_level_discrimination'] = sorted({'%s -> %s' % (k['variant'], k['clause']) for k in wit['killers']})
        ck.cov['spec_pool'] = dict(pool=wit['pool'], in_domain=wit['indomain'], ambiguous_and_differs_from_Resolve=wit['ambig'])

        # ---------------------------------------------------------------- 2. cases
        for cfg, exp in exports:
            files = sorted(glob.glob(exp + '.*'))
            if not files:
                raise MachineryError('TLC exported no cases for %s' % cfg)
            for i, c in enumerate(x for f in files for x in load_ndjson(f)):
                if ck.quick and cfg == 'Shlibs_wide' and i % 4:
                    continue                      # quick: every 4th word of the structured alphabet goes to the real code (thorough: all)
                if c['t'] == 'la':
                    la_cases.append(('tlc-%s-%d' % (cfg, i), c, 'TLC enumeration ' + cfg))
                else:
                    cases.append(('tlc-%s-%d' % (cfg, i), c, None, 'TLC enumeration ' + cfg))
        for i, k in enumerate(wit['killers']):
            cases.append(('killer-%s-%s' % (k['variant'], k['clause']), k['case'], None, 'TLC: case on which deviation %s breaks %s' % (k['variant'], k['clause'])))
        for i, c in enumerate(wit['ambiguous']):
            cases.append(('ambiguous-%d' % i, c, None, 'TLC: outside the precondition (one file satisfies two requests)'))
        for i, c in enumerate(wit['files']):
            cases.append(('existing-file-%d' % i, c, None, 'TLC: a request names an existing file (outside the statement; probe)'))
        for i, c in enumerate(wit['la']):
            la_cases.append(('la-witness-%d' % i, c, 'TLC: archive the implementation layer drops silently (Inv_LaFailLoudly counterexample)'))
        for i, c in enumerate(corpus_cases()):
            cases.append(('corpus-%d' % i, c, None, 'tests/scanner/test_shlibs.py'))
        g = Gen(ck.rng)
        nrand = 2500 if ck.quick else 40000
        for i in range(nrand):
            c, h = g.case()
            cases.append(('rand-%d' % i, c, h, 'random seed %d' % ck.seed))
            if i % 97 == 0:          # the same listing with a request that names an existing file
                c2 = dict(c, files=[c['reqs'][0]])
                cases.append(('rand-%d-file' % i, c2, h, 'random seed %d, request names an existing file' % ck.seed))
        for i in range(400 if ck.quick else 4000):
            la_cases.append(('la-rand-%d' % i, g.la(), 'random seed %d' % ck.seed))

    if os.environ.get('C19_SUITE_OUT') and not a.replay:
        with open(os.environ['C19_SUITE_OUT'], 'w') as f:
            json.dump(dict(property=PID, replay=dict(suite=[dict(id=cid, case=c, hints=h) for cid, c, h, _ in cases] +
                                                                  [dict(id=cid, case=c) for cid, c, _ in la_cases])), f)

    # -------------------------------------------------------------------- 3. the real code
    obs, by_id = [], {}
    for n, (cid, c, h, src) in enumerate(cases):
        text = render(c, h)
        reqs = [S(q) for q in c['reqs']]
        files = [S(q) for q in c['files']]
        o = real.ldd(reqs, files, text)
        ck.count()
        rec = dict(id=cid, t='ldd', reqs=c['reqs'], files=c['files'], listing=c['listing'], kind=o['kind'], out=o['out'], msgc=o['msgc'])
        obs.append(rec)
        by_id[cid] = dict(id=cid, case=c, hints=h, src=src, text=text, observed=dict(kind=o['kind'], out=[S(x) for x in o['out']], msg=S(o['msgc'])))
        if n % 8 == 0 or (a.replay and len(cases) < 50):
            o2 = real.ldd(reqs, files, text, via_api=True)
            ck.count()
            rec2 = dict(rec, id=cid + '/api', kind=o2['kind'], out=o2['out'], msgc=o2['msgc'])
            obs.append(rec2)
            by_id[cid + '/api'] = dict(by_id[cid], id=cid + '/api', observed=dict(kind=o2['kind'], out=[S(x) for x in o2['out']], msg=S(o2['msgc'])),
                                       via='resolve_shlibs with subprocess.check_output substituted')
        if any(('lib' + q) in text for q in reqs):
            ck.nontrivial(text + '\0' + '\0'.join(reqs))
    la_obs = []
    for cid, arch, src in la_cases:
        o = real.la(S(arch['name']), [S(l) for l in arch['lines']])
        ck.count()
        la_obs.append(dict(id=cid, t='la', name=arch['name'], lines=arch['lines'], kind=o['kind'], out=o['out'], msgc=o['msgc']))
        by_id[cid] = dict(id=cid, case=arch, src=src, text='\n'.join(S(l) for l in arch['lines']),
                          observed=dict(kind=o['kind'], out=[S(x) for x in o['out']], msg=S(o['msgc'])))
        ck.nontrivial('la\0' + by_id[cid]['text'])

    # -------------------------------------------------------------------- 4. verdicts by TLC
    jobs = NCPU - 2 if NCPU >= 8 else max(1, NCPU)
    rej, ex = verdicts(ck, 'ShlibsTrace', obs, chunk=max(250, min(1500, len(obs) // jobs + 1)), jobs=jobs) if obs else ([], {})
    rej2, ex2 = verdicts(ck, 'ShlibsLaTrace', la_obs, chunk=2000, jobs=jobs) if la_obs else ([], {})
    ndrift, noutside, nskipped = 0, 0, 0
    for rid, clause, detail in list(rej) + list(rej2):
        info = by_id[rid]
        if clause == 'MALFORMED':
            raise MachineryError('case %s (%s) is not well-formed: %s' % (rid, info['src'], detail))
        if clause == 'OUTSIDE':
            noutside += 1
            if rid.startswith('rand-') or rid.startswith('la-rand-'):
                raise MachineryError('random case %s (%s) is outside the quantifier of C19 (generator bug): %s' % (rid, info['src'], detail))
            continue
        if clause == 'FILE-SKIPPED':
            nskipped += 1
            if nskipped <= 3:
                ck.notes.append('FILE-SKIPPED %s (%s): requests %s, real code %r' % (rid, info['src'], [S(q) for q in info['case']['reqs']], info['observed']))
            continue
        if clause == 'DRIFT':
            ndrift += 1
            if ndrift <= 20:
                ck.notes.append('DRIFT %s (%s): real code %r, implementation layer predicts otherwise; property layer accepts'
                                % (rid, info['src'], info['observed']))
            continue
        sig = dict(clause=clause, cause=detail)          # ldd: cause '-'; archives: the kind of dlname
        what = 'requests %s' % [S(q) for q in info['case']['reqs']] if info['case']['t'] == 'ldd' else 'archive %s' % S(info['case']['name'])
        ck.violation(sig, '%s violated (%s) on %s [%s]: %s; real code -> %s\n%s' % (
            clause, detail, rid, info['src'], what, info['observed'], info['text'][:900]),
            dict(id=rid.split('/')[0], case=info['case'], hints=info.get('hints'), text=info['text'], observed=info['observed']))
    ck.cov['outside_quantifier'] = noutside
    ck.cov['existing_file_requests_skipped_silently'] = nskipped
    ck.cov['drifted'] = ndrift
    if not a.replay:
        core = ['RightFile', 'FirstListed', 'ByBaseName', 'HeaderIgnored', 'NeverPrefixSibling', 'FailLoudly']
        silent = [c for c in core if not ex.get(c)] + [c for c in ['LaDlname', 'LaPath', 'LaFailLoudly'] if not ex2.get(c)]
        if silent:
            raise MachineryError('clauses never exercised (generator bug): %s' % silent)
    ck.cov['rule'] = ('an evaluation = one call of the real resolve_from_ldd_output+sanitize_shlib_path / resolve_shlibs on a rendered case; '
                      'non-trivial = the listing text contains lib<request> for some request (or an archive); distinct by text and requests')
    for cid in [c[0] for c in cases[:1]] + [c[0] for c in cases if c[0].startswith('rand-')][:1] + [c[0] for c in la_cases[:1]]:
        i = by_id[cid]
        ck.sample(dict(id=cid, src=i['src'], requests=[S(q) for q in i['case'].get('reqs', [])], text=i['text'][:600], observed=i['observed']))
    return ck.finish()


if __name__ == '__main__':
    main_wrapper(PID, run)

"""C13 — enumeration members and constants keep correct names, types and values.

tla/EnumConst.tla: property layer (expected member names / values) + implementation-shaped layer
(_enum_common_prefix fold, _create_const wrap) ; TLC checks impl => property exhaustively
(EnumConstMC), exports the cases (EnumConstCases) which are rendered into raw symbols, scanned by
the REAL Transformer/MainTransformer/GIRWriter, and the projected GIR is judged by TLC
(EnumConstTrace).
"""
import json, os

from ..common import Check, MachineryError, main_wrapper

PID = 'C13'
LOWER = {'FOO': 'foo', 'BAR': 'bar', 'A': 'a', 'B': 'b', 'AB': 'ab', 'ABX': 'abx', 'X2': 'x2', 'BIG': 'big'}
VOCAB = sorted(LOWER)
# type spelling -> (type class after alias resolution, expected GI type name)
TYPES = {'guint8': 'guint8', 'guint16': 'guint16', 'guint32': 'guint32', 'guint64': 'guint64',
         'guint': 'guint', 'gulong': 'gulong', 'gsize': 'gsize', 'guchar': 'guint8', 'gushort': 'gushort',
         'gint': 'gint', 'gint8': 'gint8', 'gint16': 'gint16', 'gint32': 'gint32', 'gint64': 'gint64',
         'glong': 'glong', 'gssize': 'gssize', 'gshort': 'gshort', 'gchar': 'gchar'}


def to_limbs(n):
    neg = n < 0
    m = -n if neg else n
    return dict(neg=neg, l=[(m >> (16 * i)) & 0xffff for i in range(4)])


def from_limbs(v):
    m = sum(x << (16 * i) for i, x in enumerate(v['l']))
    return -m if v['neg'] else m


def run():
    ck = Check(PID, 'model_checking')
    from .. import scan as S
    ck.assumptions += ['symgen conventions of harness/scan.py (typedef enum -> CSYMBOL_TYPE_TYPEDEF/CTYPE_ENUM with enumerator children; '
                       '#define with a cast -> CSYMBOL_TYPE_CONST with base_type)',
                       'member words drawn from a 8-word vocabulary (lower-casing is a table in the spec)',
                       'enumeration members carry the namespace prefix unless a case says otherwise (the statement is silent there)']
    replay = json.load(open(ck.args.replay))['replay'] if ck.args.replay else None

    if not replay:
        ck.tlc_mc('EnumConstMC', 'EnumConst_fixed.cfg', workers=8, timeout=600,
                  label='impl => property: all enums <=3 members x <=3 words over 4 words; 18 types x 37 values')
        ck.cov['exhaustive'] = True
        cases_file = os.path.join(ck.tmp, 'cases.json')
        ck._tlc('EnumConstCases.tla', 'EnumConstCases.cfg', ['-seed', str(ck.seed + 1)],
                dict(TIER=ck.tier, CASES_FILE=cases_file), 600, 4)
        if not os.path.exists(cases_file):
            raise MachineryError('TLC did not export cases')
        cases = json.load(open(cases_file))
        enums = [dict(ms=e, bitfield=(i % 5 == 0), src='tlc') for i, e in enumerate(cases['enums'])]
        consts = [dict(t=c['t'], v=c['v'], src='tlc') for c in cases['consts']]
        # seeded random cases beyond the exhaustive bound: up to 6 members x 4 words over 7 words, 64-bit values
        rng = ck.rng
        n_rand = 1500 if ck.quick else 20000
        for _ in range(n_rand):
            shared = [rng.choice(VOCAB) for _ in range(rng.choice([0, 0, 1, 1, 2]))]
            n = rng.randint(1, 6)
            ms = []
            for _ in range(n):
                ms.append(shared + [rng.choice(VOCAB) for _ in range(rng.randint(1, 3))])
            r = rng.random()
            if r < 0.5:
                ms = [['FOO'] + m for m in ms]
            elif r < 0.8:
                ms = [[rng.choice(['FOO', 'BAR'])] + m for m in ms]
            # the statement's precondition
            ok = all(not (i != j and ms[j][:len(ms[i])] == ms[i]) for i in range(n) for j in range(n))
            if ok:
                enums.append(dict(ms=ms, bitfield=rng.random() < 0.3, src='random'))
        # directed: members whose last word is a CHARACTER prefix of the others' last words without being a
        # shared WORD (FOO_WIDTH_INT / _INT8 / _INT16): a character-wise common prefix is not the word-wise one
        import itertools
        for shared in ([], ['FOO'], ['FOO', 'BAR'], ['BAR', 'BIG']):
            for tails in (['A', 'AB', 'ABX'], ['A', 'AB'], ['AB', 'ABX'], ['A', 'ABX'], ['A', 'AB', 'ABX', 'B']):
                for perm in itertools.permutations(tails):
                    enums.append(dict(ms=[shared + [t] for t in perm], bitfield=False, src='directed char-prefix'))
                    enums.append(dict(ms=[['FOO'] + shared + [t, 'X2'] for t in perm], bitfield=True, src='directed char-prefix'))
        for _ in range(n_rand):
            t = rng.choice(sorted(TYPES))
            bits = rng.choice([7, 8, 9, 15, 16, 17, 31, 32, 33, 63, 64])
            val = rng.getrandbits(bits)
            if rng.random() < 0.4:
                val = -min(val, 2 ** 63)
            consts.append(dict(t=t, v=to_limbs(val), src='random'))
    else:
        enums = [replay] if replay['kind'] == 'enum' else []
        consts = [replay] if replay['kind'] == 'const' else []

    obs = []
    by_id = {}
    # ---------------------------------------------------------------- enumerations, packed per namespace
    CH = 400
    for base in range(0, len(enums), CH):
        chunk = enums[base:base + CH]
        syms = []
        for k, e in enumerate(chunk):
            vals = e.get('values')
            if vals is None:
                rng = ck.rng
                vals = []
                for i in range(len(e['ms'])):
                    r = rng.random()
                    vals.append(to_limbs(i if r < 0.4 else rng.choice([-1, -2 ** 31, 2 ** 31 - 1, 2 ** 31, 2 ** 32, 2 ** 63 - 1,
                                                                   -2 ** 63, 255, 256, 65536, rng.getrandbits(40)])))
                e['values'] = vals
            members = [('_'.join(m), from_limbs(v)) for m, v in zip(e['ms'], vals)]
            syms.append(S.typedef_enum('FooE%d' % (base + k), members, bitfield=e['bitfield'], line=k + 1))
        r = S.scan(syms, deps=(), symp=('foo', 'bar'))
        ns = S.namespace_of(S.girabs(r.xml))
        found = {}
        for c in ns['children']:
            if c['tag'] in ('enumeration', 'bitfield'):
                found[c['attrs'].get('c:type')] = c
        for k, e in enumerate(chunk):
            eid = 'enum-%d' % (base + k)
            node = found.get('FooE%d' % (base + k))
            members = []
            if node is not None:
                for m in S.children(node, 'member'):
                    members.append(dict(name=m['attrs'].get('name', ''), cid=m['attrs'].get('c:identifier', ''),
                                        value=to_limbs(int(m['attrs'].get('value', '0')))))
            o = dict(id=eid, kind='enum', ms=e['ms'], nsw=['FOO', 'BAR'], bitfield=bool(e['bitfield']), values=e['values'],
                     present=node is not None, tag=node['tag'] if node is not None else '-', members=members,
                     # uniform record shape for TLC
                     via='-', ckind='-', cname='-', t='-', gitype='-', v=to_limbs(0), text='-', outCname='-', outType='-',
                     outValue=to_limbs(0), outText='-')
            obs.append(o)
            by_id[eid] = dict(kind='enum', ms=e['ms'], bitfield=e['bitfield'], values=e['values'], src=e.get('src', ''))
            ck.count()
            ck.nontrivial(('e', json.dumps(e['ms'])))
    # ---------------------------------------------------------------- constants
    extra = []
    if not replay:
        extra = [dict(ckind='str', text=t, src='fixed') for t in ['', 'abc', 'a"b<c>&d', "it's", 'tab\there', 'nön-äscii ✓', ' lead and trail ',
                 'line\nbreak', 'cr\rhere', 'HTTP/1.1 200 OK\r\n', '\r', '\n', '\t', 'x\ty\nz\r', 'trailing newline\n', 'astral 😀 𝔘',
                 '&amp; looks like an entity', ']]> <!-- -->', 'both \' and "', '  ', 'a' * 300]]
        # "strings verbatim": seeded random strings over an alphabet with every character an XML attribute
        # value has to protect (quotes, markup, CR / LF / TAB, non-ASCII, astral)
        alpha = ['a', 'B', '7', ' ', '_', '"', "'", '<', '>', '&', '\n', '\r', '\t', 'é', '中', '😀', ';', '#']
        for _ in range(60 if ck.quick else 1500):
            extra.append(dict(ckind='str', text=''.join(ck.rng.choice(alpha) for _ in range(ck.rng.randint(1, 12))), src='random'))
        extra += [dict(ckind='bool', text='true', src='fixed'), dict(ckind='bool', text='false', src='fixed')]
        # aliases to fixed-width unsigned types (alias to alias too)
        for t in ('guint8', 'guint16', 'guint32', 'guint64'):
            for val in (-1, 300, 70000, 2 ** 32 + 5, 2 ** 64 - 1):
                extra.append(dict(t=t, v=to_limbs(val), via='alias', src='fixed'))
                extra.append(dict(t=t, v=to_limbs(val), via='alias2', src='fixed'))
    allc = consts + extra
    for base in range(0, len(allc), CH):
        chunk = allc[base:base + CH]
        syms = [S.alias('FooU8', 'guint8'), S.alias('FooU16', 'guint16'), S.alias('FooU32', 'guint32'), S.alias('FooU64', 'guint64'),
                S.alias('FooUU8', 'FooU8'), S.alias('FooUU16', 'FooU16'), S.alias('FooUU32', 'FooU32'), S.alias('FooUU64', 'FooU64')]
        meta = []
        for k, c in enumerate(chunk):
            name = 'FOO_K%d' % (base + k)
            ckind = c.get('ckind', 'int')
            if ckind == 'int':
                spelling = c['t']
                gitype = TYPES[c['t']] if c['t'] != 'guchar' else 'guint8'
                if c.get('via') == 'alias':
                    spelling = 'FooU' + c['t'][5:]
                    gitype = 'U' + c['t'][5:]
                elif c.get('via') == 'alias2':
                    spelling = 'FooUU' + c['t'][5:]
                    gitype = 'UU' + c['t'][5:]
                syms.append(S.const_int(name, from_limbs(c['v']), spelling, line=k + 1))
                # guchar is an alias-free spelling of guint8 in ast.type_names: resolved class is guint8
                tcls = 'guint8' if c['t'] == 'guchar' else c['t']
                meta.append((name, ckind, tcls, gitype, c['v'], '-'))
            elif ckind == 'str':
                syms.append(S.const_str(name, c['text'], line=k + 1))
                meta.append((name, ckind, '-', 'utf8', to_limbs(0), c['text']))
            else:
                syms.append(S.const_bool(name, c['text'] == 'true', line=k + 1))
                meta.append((name, ckind, '-', 'gboolean', to_limbs(0), c['text']))
        r = S.scan(syms, deps=())
        ns = S.namespace_of(S.girabs(r.xml))
        found = {c['attrs'].get('c:type'): c for c in ns['children'] if c['tag'] == 'constant'}
        for k, (name, ckind, tcls, gitype, v, text) in enumerate(meta):
            cid = 'const-%d' % (base + k)
            node = found.get(name)
            outv, outt, outtype = to_limbs(0), '-', '-'
            if node is not None:
                val = node['attrs'].get('value', '')
                outt = val
                if ckind == 'int':
                    try:
                        outv = to_limbs(int(val))
                    except ValueError:
                        outv = to_limbs(0)
                        outt = 'not-an-integer:' + val
                ty = S.child(node, 'type')
                outtype = ty['attrs'].get('name', '-') if ty else '-'
            obs.append(dict(id=cid, kind='const', ms=[], nsw=['FOO', 'BAR'], bitfield=False, values=[], present=node is not None,
                            tag='-', members=[], via=chunk[k].get('via', 'direct'), ckind=ckind, cname=name, t=tcls, gitype=gitype, v=v, text=text,
                            outCname=node['attrs'].get('c:type', '-') if node is not None else '-', outType=outtype,
                            outValue=outv, outText=outt))
            by_id[cid] = dict(kind='const', **chunk[k])
            ck.count()
            ck.nontrivial(('c', ckind, tcls, json.dumps(v), text))

    rejected, exercised = ck.tlc_verdict('EnumConstTrace', obs, chunk=30000)
    for oid, clause, detail in rejected:
        c = by_id[oid]
        sig = dict(clause=clause, detail=detail)
        if c['kind'] == 'const' and clause in ('InRange', 'IntValue'):
            tname, _, via = detail.partition('/')
            if via == 'alias2':
                sig = dict(clause=clause, cls='alias-chain')
            elif clause == 'InRange' and tname in ('guint', 'gulong', 'gsize', 'gushort'):
                sig = dict(clause=clause, cls='platform-width-unsigned')
        ck.violation(sig, '%s: clause %s rejected (%s) for %s' % (oid, clause, detail, json.dumps(c)[:400]), c)
    ck.cov['rule'] = ('cases = TLC-enumerated enumerations/constants (EnumConstCases) + seeded random beyond the bound; '
                      'non-trivial/distinct = distinct member word lists resp. (type, value) pairs')
    for o in obs[:2] + obs[-1:]:
        ck.sample({k: o[k] for k in ('id', 'kind', 'ms', 'values', 'members', 'cname', 't', 'v', 'outValue', 'outType') if k in o})
    return ck.finish()


if __name__ == '__main__':
    main_wrapper(PID, run)

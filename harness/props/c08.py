"""C08 -- record and union layout stored in typelibs equals the platform C ABI.

1. TLC model-checks tla/Layout.tla through tla/LayoutCases.tla (= LayoutMC + case export): the
   implementation-shaped layer (giroffsets.c / girparser.c / girnode.c arithmetic) satisfies the
   property layer (the x86-64 SysV ABI rules) over all member sequences of the bounded spaces
   "flat" (14 member kinds, length <= 3 quick / 4 thorough), "nest" (structs/unions of structs/
   unions of leaves, arrays), "misc" (every scalar kind, every enumeration value range over the 34
   valid ranks of the 23 boundary values, arrays of composites; thorough: environments of named
   declarations with sharing, cycles, dangling references), "wide" (members that are 64-bit
   enumerations) and "ucb" (inline callbacks in unions).  Configurations that MUST violate their
   invariant: the recorded deviations of the implementation layer (anonymous members, members whose
   type the GIR does not describe -- known findings) and the what-ifs that switch the model back to
   the code before a repair (EnumCap32: enum width table before fix 7607f22; UnionFieldCallback =
   FALSE: parser before fix 927c0d9).
   Development aids: C08_DEV_CASES=<dir of a --keep run> skips model checking and reuses its case
   files; C08_LIMIT=<n> caps the replayed declarations per exported space; C08_EXTRA_FINDINGS=<json>
   adds known entries for experiments (never used by ./check itself).
2. The SAME case spaces are exported by TLC (JsonSerialize from the module that is model-checked)
   and rendered, together with seeded random bigger declarations in the same schema and the
   structures of tests/offsets/offsets.h, BOTH as GIR <record>/<union>/<enumeration> documents
   compiled by REPO's g-ir-compiler (built from the working tree on every run) AND as C
   declarations compiled by gcc (one translation unit per batch printing sizeof/_Alignof/offsetof).
   The typelib is read twice: by the independent decoder harness/tlabs.py and through the public
   API (g_struct_info_get_size/_alignment, g_union_info_*, g_field_info_get_offset,
   g_enum_info_get_storage_type: harness/cdrv/drv_c08.c).  Declarations with a member the GIR
   types as void make the real g-ir-compiler abort on its own warning; they additionally go
   through drv_c08_lenient (the same sources, warnings not fatal) to see what the library RECORDS.
3. tla/LayoutTrace.tla judges every observation: Typelib = Gcc, Api = Gcc, Compiled,
   Unknown => recorded as unknown (or nothing wrong recorded), enum storage = gcc; the calibration
   clauses SPEC_* (Spec = Gcc) are a MACHINERY failure (exit 2) when they fail, never a violation;
   DRIFT_* compare the implementation layer's prediction with the observation (note only).

Verdicts come from TLC only; Python renders cases and projects outputs.
"""
import json, os, random, shutil, subprocess, time, threading
from concurrent.futures import ThreadPoolExecutor

from ..common import Check, MachineryError, main_wrapper, REPO, VERIF, NCPU
from ..cbuild import CBuild, SHIM
from .. import tlabs

PID = 'C08'
CDRV = os.path.join(VERIF, 'harness', 'cdrv')
BATCH = 300

GIR_HEAD = ('<?xml version="1.0"?>\n<repository version="1.2" xmlns="http://www.gtk.org/introspection/core/1.0" '
            'xmlns:c="http://www.gtk.org/introspection/c/1.0" xmlns:glib="http://www.gtk.org/introspection/glib/1.0">\n'
            '<namespace name="Tns" version="1.0" c:identifier-prefixes="Tns" c:symbol-prefixes="tns">\n'
            '<callback name="Cb" c:type="TnsCb"><return-value transfer-ownership="none"><type name="none" c:type="void"/>'
            '</return-value></callback>\n')
GIR_TAIL = '</namespace></repository>\n'
C_HEAD = ('#include <glib.h>\n#include <stddef.h>\n#include <stdio.h>\n#include <sys/types.h>\n#include <sys/socket.h>\n#include <time.h>\n'
          'typedef struct { char x[3]; } TnsHid3;\ntypedef struct { void (*f) (int, ...); } TnsHid8;\n'
          'typedef struct { int x[3]; } TnsHid12;\ntypedef long double TnsHid16;\ntypedef void (*TnsCb) (void);\n')

# member kind -> (GIR type name, C type) for the scalar kinds of Layout.tla (ScalarKinds without the pointer flavours)
SCALAR = {
    'int8': 'gint8', 'uint8': 'guint8', 'char': 'gchar', 'uchar': 'guchar', 'int16': 'gint16', 'uint16': 'guint16',
    'short': 'gshort', 'ushort': 'gushort', 'int32': 'gint32', 'uint32': 'guint32', 'int': 'gint', 'uint': 'guint',
    'float': 'gfloat', 'boolean': 'gboolean', 'unichar': 'gunichar', 'int64': 'gint64', 'uint64': 'guint64',
    'long': 'glong', 'ulong': 'gulong', 'ssize': 'gssize', 'size': 'gsize', 'intptr': 'gintptr', 'uintptr': 'guintptr',
    'double': 'gdouble', 'gtype': 'GType', 'off_t': 'off_t', 'time_t': 'time_t', 'dev_t': 'dev_t', 'gid_t': 'gid_t',
    'pid_t': 'pid_t', 'socklen_t': 'socklen_t', 'uid_t': 'uid_t'}
POINTERS = ('pointer', 'utf8', 'recptr', 'arrptr', 'glist')
HIDDEN = {'hid3': 'TnsHid3', 'hid8': 'TnsHid8', 'hid12': 'TnsHid12', 'hid16': 'TnsHid16'}
ANON = ('anonstruct', 'anonunion')


def mk(k, n=0, lo=0, hi=0, sub=()):
    return dict(k=k, n=n, lo=lo, hi=hi, sub=list(sub))


def strip(ms):
    return [dict(k=m['k'], n=m['n'], lo=m['lo'], hi=m['hi'], sub=strip(m['sub'])) for m in ms]


def walk(ms):
    for m in ms:
        yield m
        for x in walk(m['sub']):
            yield x


def c_int(v):
    if v == -2 ** 63:
        return '(-9223372036854775807L-1)'
    return '(%d)' % v if v < 0 else str(v)


# ----------------------------------------------------------------------------- ranks <-> values
class Ranks(object):
    def __init__(self, bnd):
        self.bnd = [int(b) for b in bnd]
        n = len(self.bnd)
        self.valid = [2 * i for i in range(1, n + 1)]
        self.valid += [2 * i + 1 for i in range(1, n) if self.bnd[i] - self.bnd[i - 1] > 1]
        self.valid.sort()

    def value(self, rank, rng):
        i = rank // 2
        if rank % 2 == 0:
            return self.bnd[i - 1]
        a, b = self.bnd[i - 1], self.bnd[i]
        return rng.choice([a + 1, b - 1, (a + b) // 2, rng.randint(a + 1, b - 1)])

    def rank(self, v):
        for i, b in enumerate(self.bnd, 1):
            if v == b:
                return 2 * i
            if v < b:
                return 2 * i - 1
        raise MachineryError('value %d beyond the boundary table' % v)


def concretise(case, ranks, seed):
    """choose the enumerator values the ranks of the case stand for (kept in the case: replay re-uses them)"""
    if 'vals' in case:
        return case
    rng = random.Random('%s/%s' % (seed, case['id']))
    vals = {}
    if case['rk'] == 'enum':
        vals[''] = [ranks.value(case['lo'], rng), ranks.value(case['hi'], rng)]

    def rec(ms, path):
        for j, m in enumerate(ms, 1):
            p = '%s%d' % (path, j)
            if m['k'] == 'enum':
                vals[p] = [ranks.value(m['lo'], rng), ranks.value(m['hi'], rng)]
            rec(m['sub'], p + '_')
    rec(case['ms'], '')
    for k, (a, b) in vals.items():
        if a > b:                      # lo and hi in the same open interval
            vals[k] = [b, a]
    case['vals'] = vals
    return case


# ----------------------------------------------------------------------------- rendering
class Rendered(object):
    pass


def render_enum_decl(name, vals, flags=False):
    a, b = vals
    mem = [('a', a)] + ([('b', b)] if b != a else [])
    if a < 0 < b and (a + b) % 3 == 0:
        mem.insert(1, ('z', 0))
    tag = 'bitfield' if flags else 'enumeration'
    gir = '<%s name="%s" c:type="Tns%s">' % (tag, name, name)
    gir += ''.join('<member name="%s" value="%d" c:identifier="TNS_%s_%s"/>' % (n, v, name.upper(), n.upper()) for n, v in mem)
    gir += '</%s>\n' % tag
    c = 'typedef enum { %s } Tns%s;\n' % (', '.join('TNS_%s_%s = %s' % (name.upper(), n.upper(), c_int(v)) for n, v in mem), name)
    return gir, c


def render_case(case, name):
    """-> Rendered: gir (top-level elements, text), c (declarations, text) or None when there is no C declaration,
    probes (C expressions printed for this case), fields (typelib field name per member of ms, None for anonymous)"""
    R = Rendered()
    gir_top, c_top = [], []
    state = dict(cok=True)
    vals = case['vals']
    root_first = case.get('root_first', False)

    if case['rk'] == 'enum':
        g, c = render_enum_decl(name, vals[''], flags=case.get('flags', False))
        R.gir, R.c, R.fields = g, c, []
        R.probes = ['sizeof (Tns%s)' % name, '(int) ((Tns%s) -1 < 0)' % name]
        return R

    def type_of(m, path):
        """-> (gir type xml, C base type, C declarator suffix, hidden)"""
        k = m['k']
        if k in SCALAR:
            return '<type name="%s" c:type="%s"/>' % (SCALAR[k], SCALAR[k]), SCALAR[k], '', False
        if k == 'pointer':
            return '<type name="gpointer" c:type="gpointer"/>', 'gpointer', '', False
        if k == 'utf8':
            return '<type name="utf8" c:type="gchar*"/>', 'gchar *', '', False
        if k == 'recptr':
            return '<type name="%s" c:type="Tns%s*"/>' % (name, name), 'Tns%s *' % name, '', False
        if k == 'arrptr':
            return '<array c:type="gint*"><type name="gint" c:type="gint"/></array>', 'gint *', '', False
        if k == 'glist':
            return '<type name="GLib.List" c:type="GList*"><type name="gpointer" c:type="gpointer"/></type>', 'GList *', '', False
        if k in ('cbref', 'callback'):
            return '<type name="Cb" c:type="TnsCb"/>', 'TnsCb', '', False
        if k in HIDDEN:
            return '<type c:type="%s"/>' % HIDDEN[k], HIDDEN[k], '', True
        if k == 'unknown':
            state['cok'] = False
            return '<type name="none" c:type="void"/>', 'void', '', False
        if k == 'enum':
            en = '%s_e%s' % (name, path)
            g, c = render_enum_decl(en, vals[path], flags=(vals[path][0] >= 0 and len(path) % 2 == 0))
            gir_top.append(g)
            c_top.append(c)
            return '<type name="%s" c:type="Tns%s"/>' % (en, en), 'Tns' + en, '', False
        if k == 'array':
            g, cb, cs, hid = type_of(m['sub'][0], path + '_1')
            return ('<array zero-terminated="0" fixed-size="%d" c:type="%s">%s</array>' % (m['n'], cb.replace(' ', '') + '*', g),
                    cb, '[%d]%s' % (m['n'], cs), hid)
        if k in ('struct', 'union'):
            sn = '%s_%s%s' % (name, 's' if k == 'struct' else 'u', path)
            declare(k, sn, m['sub'], path + '_')
            return '<type name="%s" c:type="Tns%s"/>' % (sn, sn), 'Tns' + sn, '', False
        raise MachineryError('member kind %r cannot be rendered here' % k)

    def members(ms, prefix):
        """-> (gir children, C member declarations, first leaf name per member, field name per member)"""
        g_out, c_out, leaf, fld = [], [], [], []
        for j, m in enumerate(ms, 1):
            path = '%s%d' % (prefix, j)
            fname = 'f' + path
            k = m['k']
            if k in ANON:
                g, c, lf, _ = members(m['sub'], path + '_')
                tag, kw = ('record', 'struct') if k == 'anonstruct' else ('union', 'union')
                g_out.append('<%s>%s</%s>' % (tag, ''.join(g), tag))
                c_out.append('%s { %s};' % (kw, ' '.join(c) + (' ' if c else '')))
                if not lf or lf[0] is None:
                    state['cok'] = False
                    leaf.append(None)
                else:
                    leaf.append(lf[0])
                fld.append(None)
                continue
            if k == 'callback':
                g_out.append('<field name="%s"><callback name="%s"><return-value transfer-ownership="none"><type name="none" c:type="void"/>'
                             '</return-value><parameters><parameter name="x" transfer-ownership="none"><type name="gint" c:type="gint"/>'
                             '</parameter></parameters></callback></field>' % (fname, fname))
                c_out.append('void (*%s) (gint x);' % fname)
            else:
                g, cb, cs, hid = type_of(m, path)
                g_out.append('<field name="%s"%s writable="1">%s</field>' % (fname, ' introspectable="0"' if hid else '', g))
                c_out.append('%s %s%s;' % (cb, fname, cs))
            leaf.append(fname)
            fld.append(fname)
        return g_out, c_out, leaf, fld

    def declare(kind, dname, ms, prefix=''):
        is_root = dname == name
        slot = None
        if is_root and root_first:
            slot = len(gir_top)
            gir_top.append(None)
        g, c, lf, fld = members(ms, prefix)
        tag, kw = ('record', 'struct') if kind == 'struct' else ('union', 'union')
        text = '<%s name="%s" c:type="Tns%s">%s</%s>\n' % (tag, dname, dname, ''.join(g), tag)
        if slot is None:
            gir_top.append(text)
        else:
            gir_top[slot] = text
        c_top.append('%s _Tns%s { %s};\n' % (kw, dname, ' '.join(c) + (' ' if c else '')))
        return lf, fld

    # forward typedefs so that pointers to the root (and embedded types) can be written before the definitions
    fwd = []

    def forward(kind, dname, ms, prefix=''):
        fwd.append('typedef %s _Tns%s Tns%s;\n' % ('struct' if kind == 'struct' else 'union', dname, dname))
        # hoisted names are created in type_of(); mirror its naming
        def rec(ms, prefix):
            for j, m in enumerate(ms, 1):
                path = '%s%d' % (prefix, j)
                if m['k'] in ('struct', 'union'):
                    sn = '%s_%s%s' % (name, 's' if m['k'] == 'struct' else 'u', path)
                    forward(m['k'], sn, m['sub'], path + '_')
                elif m['k'] in ANON:
                    rec(m['sub'], path + '_')
                elif m['k'] == 'array':
                    rec(m['sub'], path + '_')
        rec(ms, prefix)
    forward(case['kind'], name, case['ms'])
    leaf, fld = declare(case['kind'], name, case['ms'])
    R.gir = ''.join(gir_top)
    R.fields = fld
    if state['cok']:
        R.c = ''.join(fwd) + ''.join(c_top)
        R.probes = ['sizeof (Tns%s)' % name, '_Alignof (Tns%s)' % name] + ['offsetof (Tns%s, %s)' % (name, l) for l in leaf]
    else:
        R.c, R.probes = None, []
    return R


def s32(v):
    v &= 0xFFFFFFFF
    return v - (1 << 32) if v >= (1 << 31) else v


# ----------------------------------------------------------------------------- running the real code
class Runner(object):
    def __init__(self, ck):
        self.ck = ck
        t = time.time()
        self.cb = CBuild(os.path.join(ck.tmp, 'build')).build()
        self.drv = self.cb.driver(os.path.join(CDRV, 'drv_c08.c'))
        # g-ir-compiler with warnings not fatal: tools/compiler.c of REPO, textually included
        obj = os.path.join(self.cb.out, 'drv_c08_lenient.o')
        p = subprocess.run(['gcc'] + self.cb.cflags + ['-I' + os.path.join(REPO, 'tools'), '-c',
                                                       os.path.join(CDRV, 'drv_c08_lenient.c'), '-o', obj],
                           stdout=subprocess.PIPE, stderr=subprocess.STDOUT, text=True)
        if p.returncode != 0:
            raise MachineryError('C build failed for drv_c08_lenient.c:\n%s' % p.stdout[-3000:])
        self.lenient = self.cb._link([obj] + self.cb.lib_objs, os.path.join(self.cb.out, 'g-ir-compiler-lenient'))
        ck.notes.append('C build %.1fs (REPO=%s)' % (time.time() - t, REPO))
        self.env = dict(os.environ, GI_TYPELIB_PATH='', G_DEBUG='', G_SLICE='always-malloc', G_MESSAGES_DEBUG='')
        self.lock = threading.Lock()
        self.nbatch = 0
        self.compile_fail = 0
        self.api_crashes = 0

    def _run(self, cmd, timeout=3000, cwd=None):
        try:
            return subprocess.run(cmd, stdout=subprocess.PIPE, stderr=subprocess.PIPE, env=self.env, timeout=timeout, cwd=cwd)
        except subprocess.TimeoutExpired:
            raise MachineryError('timeout: %s' % ' '.join(cmd[:3]))

    def _typelib_side(self, d, items, via, out):
        """items: [(case, name, Rendered)].  Fills out[name] = dict(produced, tl, api, storage, apiStorage).
        A compiler failure on a batch is narrowed down by bisection to the declarations that cause it."""
        sub = os.path.join(d, 'g-%s-%d' % (items[0][1], len(items)))
        os.makedirs(sub, exist_ok=True)
        gir = os.path.join(sub, 'Tns-1.0.gir')
        tlf = os.path.join(sub, 'Tns-1.0.typelib')
        with open(gir, 'w') as f:
            f.write(GIR_HEAD + ''.join(r.gir for _, _, r in items) + GIR_TAIL)
        exe = self.cb.compiler if via == 'compiler' else self.lenient
        p = self._run([exe, '-o', tlf, gir])
        if p.returncode != 0 or not os.path.exists(tlf):
            if len(items) == 1:
                with self.lock:
                    self.compile_fail += 1
                out[items[0][1]] = dict(produced=False, msg='rc=%s %s' % (p.returncode, p.stderr.decode('utf-8', 'replace').strip()[-300:]))
                return
            h = len(items) // 2
            self._typelib_side(d, items[:h], via, out)
            self._typelib_side(d, items[h:], via, out)
            return
        try:
            dec = tlabs.decode(tlf)
        except Exception as e:          # the decoder is part of the trusted base: its failure is not a verdict
            raise MachineryError('tlabs cannot decode the typelib of batch %s: %r' % (d, e))
        ents = {e['name']: e for e in dec['entries'] if e.get('kind') in ('struct', 'union', 'enum', 'flags')}
        api = {}

        def parse(stdout):
            complete = False
            for ln in stdout.decode('utf-8', 'replace').split('\n'):
                c = ln.split('\t')
                try:
                    if c[0] in ('S', 'U'):
                        nf = int(c[4])
                        if len(c) != 5 + 2 * nf:
                            raise ValueError(ln[:80])
                        api[c[1]] = dict(size=s32(int(c[2])), align=int(c[3]), fields={c[5 + 2 * i]: int(c[6 + 2 * i]) for i in range(nf)})
                    elif c[0] == 'E':
                        api[c[1]] = dict(storage=int(c[2]))
                    elif c[0] == 'X':
                        complete = True
                except (ValueError, IndexError):
                    # a line that is not in the driver's format (field names read from the wrong place can contain anything)
                    if len(c) > 1:
                        api[c[1]] = dict(garbled=True)
            return complete
        q = self._run([self.drv, tlf])
        if not parse(q.stdout):
            # the walk died (a crash inside the repository API): ask again for every declaration it did not get to, one process each
            with self.lock:
                self.api_crashes += 1
            for case, name, r in items:
                if name not in api:
                    parse(self._run([self.drv, tlf, name]).stdout)
        for case, name, r in items:
            e = ents.get(name)
            if e is None:
                out[name] = dict(produced=False, msg='no entry %s in the typelib' % name)
                continue
            o = dict(produced=True, msg='')
            a = api.get(name)
            if case['rk'] == 'enum':
                o['storage'] = e['storage_type']
                o['api'] = dict(ok=a is not None and 'storage' in a, size=(a or {}).get('storage', 0), align=0, offs=[])
                o['tl'] = dict(size=0, align=0, offs=[])
            else:
                byname = {f['name']: f['struct_offset'] for f in e['fields']}
                o['storage'] = 0
                o['tl'] = dict(size=s32(e['size']), align=e['alignment'], offs=[byname.get(fn, -2) if fn else -2 for fn in r.fields])
                o['nfields'] = len(e['fields'])
                if a is not None and a.get('garbled'):
                    o['api'] = dict(ok=True, size=0, align=0, offs=[-3] * len(r.fields))     # the API answered, with unreadable field data
                elif a is not None and 'fields' in a:
                    o['api'] = dict(ok=True, size=a['size'], align=a['align'], offs=[a['fields'].get(fn, -2) if fn else -2 for fn in r.fields])
                else:
                    o['api'] = dict(ok=False, size=0, align=0, offs=[])
            out[name] = o
        if not self.ck.args.keep:
            for f in (tlf, gir):
                try:
                    os.unlink(f)
                except OSError:
                    pass

    def _gcc_side(self, d, items, out):
        with_c = [(c, n, r) for c, n, r in items if r.c is not None]
        for c, n, r in items:
            out[n] = dict(ok=False, size=0, align=0, offs=[], signed=False)
        if not with_c:
            return
        src = os.path.join(d, 'abi.c')
        exe = os.path.join(d, 'abi')
        with open(src, 'w') as f:
            f.write(C_HEAD)
            for c, n, r in with_c:
                f.write(r.c)
            f.write('int main (void)\n{\n')
            for c, n, r in with_c:
                f.write('  printf ("%s%s\\n", %s);\n' % (n, ' %ld' * len(r.probes), ', '.join('(long) (%s)' % p for p in r.probes)))
            f.write('  return 0;\n}\n')
        p = self._run(['gcc', '-std=gnu11', '-w', '-O0', '-I' + os.path.join(SHIM, 'include'), '-o', exe, src])
        if p.returncode != 0:
            raise MachineryError('gcc rejects the C rendering of a batch (rendering bug, not a verdict):\n%s' % p.stderr.decode('utf-8', 'replace')[-2500:])
        q = self._run([exe])
        if q.returncode != 0:
            raise MachineryError('the ABI probe program failed: rc=%s' % q.returncode)
        kinds = {n: c['rk'] for c, n, r in with_c}
        for ln in q.stdout.decode().split('\n'):
            c = ln.split()
            if not c:
                continue
            v = [int(x) for x in c[1:]]
            if kinds[c[0]] == 'enum':
                out[c[0]] = dict(ok=True, size=v[0], align=0, offs=[], signed=bool(v[1]))
            else:
                out[c[0]] = dict(ok=True, size=v[0], align=v[1], offs=v[2:], signed=False)
        if not self.ck.args.keep:
            for f in (src, exe):
                os.unlink(f)

    def _dir(self):
        with self.lock:
            self.nbatch += 1
            d = os.path.join(self.ck.tmp, 'b%d' % self.nbatch)
        os.makedirs(d, exist_ok=True)
        return d

    def typelib_job(self, cases, via):
        """-> {case id: typelib-side observation}"""
        d = self._dir()
        items = [(case, 'C%d' % i, render_case(case, 'C%d' % i)) for i, case in enumerate(cases)]
        tl = {}
        self._typelib_side(d, items, via, tl)
        if not self.ck.args.keep:
            shutil.rmtree(d, ignore_errors=True)
        return {case['id']: dict(tl[name], via=via) for case, name, r in items}

    def gcc_job(self, cases):
        """-> {case id: gcc-side observation}"""
        d = self._dir()
        items = [(case, 'C%d' % i, render_case(case, 'C%d' % i)) for i, case in enumerate(cases)]
        gc = {}
        self._gcc_side(d, items, gc)
        if not self.ck.args.keep:
            shutil.rmtree(d, ignore_errors=True)
        return {case['id']: gc[name] for case, name, r in items}


def observation(case, t, g):
    case['_msg'] = t.get('msg', '')
    return dict(id=case['id'], rk=case['rk'], kind=case['kind'], ms=case['ms'], lo=case['lo'], hi=case['hi'],
                produced=t['produced'], via=t['via'], storage=t.get('storage', 0),
                tl=t.get('tl', dict(size=0, align=0, offs=[])), api=t.get('api', dict(ok=False, size=0, align=0, offs=[])), gcc=g)


def risky(case):
    """batching heuristic only: declarations with anonymous members can make the compiler refuse the whole document and are
    compiled alone (a refusal inside any batch is still narrowed down by bisection)"""
    return any(m['k'] in ANON for m in walk(case['ms']))


# ----------------------------------------------------------------------------- cases
def cases_from_export(path, tag, limit=None, rng=None, kinds=('struct', 'union')):
    """the case space TLC exported: every index sequence stands for one struct and one union.  With a limit, all
    sequences shorter than the longest length are kept and the longest ones are sampled (seeded)."""
    ex = json.load(open(path))
    tab = ex['members']
    seqs = [list(s) if isinstance(s, list) else [] for s in ex['seqs']]
    total = len(seqs) * 2
    if limit is not None and total > limit:
        top = max(len(s) for s in seqs)
        short = [s for s in seqs if len(s) < top]
        longest = [s for s in seqs if len(s) == top]
        seqs = short + rng.sample(longest, max(0, min(len(longest), limit // 2 - len(short))))
    out = []
    for s in seqs:
        for kd in kinds:
            out.append(dict(id='%s/%s/%s' % (tag, kd[0].upper(), '.'.join(str(i) for i in s) or '-'), rk='layout', kind=kd,
                            ms=[tab[i - 1] for i in s], lo=0, hi=0, src=tag))
    return ex, out, total


def corpus_cases(ranks):
    """tests/offsets/offsets.h of the repository, transcribed into the case schema, plus fixed edge declarations"""
    S, A = lambda k: mk(k), lambda n, e: mk('array', n=n, sub=[e])
    E = lambda v: mk('enum', lo=ranks.rank(0), hi=ranks.rank(v))
    ch = S('char')
    basic = []
    for k in ('int8', 'int16', 'int32', 'int64', 'utf8', 'float', 'double', 'size', 'uchar', 'uchar'):
        basic += [ch, S(k)]
    basic.append(ch)
    enums = [257, 32768, 65536, 2147483648]
    en = []
    for v in [1, 128] + enums:
        en += [E(v), ch]
    nestee = mk('struct', sub=[ch, S('double'), ch])
    nunion = mk('union', sub=[ch, S('double')])
    out = [
        ('offsets/Basic', 'struct', basic), ('offsets/Enum', 'struct', en),
        ('offsets/Nested', 'struct', [ch, nestee, ch, nunion, ch]),
        ('offsets/Array', 'struct', [A(2, S('int')), A(3, S('int8')), A(4, S('double')), A(2, E(1)), A(5, S('pointer'))]),
        ('offsets/MultiDimArray', 'struct', [A(10, A(2, S('int'))), A(255, A(10, ch)), A(11, A(13, A(17, S('float')))),
                                             A(3, A(5, S('utf8'))), A(7, A(9, S('pointer'))), A(2, A(3, A(4, S('pointer')))), ch]),
        ('edge/self-pointer', 'struct', [ch, S('recptr'), mk('struct', sub=[S('recptr'), ch]), ch]),
        ('edge/zero-length-array', 'struct', [ch, A(0, S('double')), ch]),
        ('edge/empty-struct-member', 'struct', [ch, mk('struct', sub=[]), S('int16')]),
        ('edge/array-of-unions', 'union', [A(3, nunion), A(5, nestee), ch]),
        ('big/offset-65534', 'struct', [A(65534, S('uint8')), S('uint8'), S('int32')]),
        ('big/offset-65535', 'struct', [A(65535, S('uint8')), S('uint8')]),
        ('big/offset-65536', 'struct', [A(65536, S('uint8')), S('uint8')]),
        ('big/offset-70000', 'struct', [A(7000, A(10, S('uint8'))), S('double'), ch]),
    ]
    return [dict(id='corpus/' + i, rk='layout', kind=k, ms=ms, lo=0, hi=0, src='corpus') for i, k, ms in out]


class Gen(object):
    """seeded random declarations beyond the exhaustive bound, in the schema TLC exports"""
    def __init__(self, rng, ranks, scalars):
        self.rng, self.ranks = rng, ranks
        self.scalars = sorted(k for k in scalars if k in SCALAR)
        self.ptrs = list(POINTERS)
        b = ranks.bnd
        self.i32min, self.i32max, self.u32max = ranks.rank(-2 ** 31), ranks.rank(2 ** 31 - 1), ranks.rank(2 ** 32 - 1)
        self.zero = ranks.rank(0)

    def wide(self, lo, hi):
        if lo < self.zero:
            return lo < self.i32min or hi > self.i32max
        return hi > self.u32max

    def enum(self, wide):
        r = self.rng
        for _ in range(200):
            a, b = sorted((r.choice(self.ranks.valid), r.choice(self.ranks.valid)))
            if self.wide(a, b) == wide:
                return mk('enum', lo=a, hi=b)
        raise MachineryError('no enum range found')

    def leaf(self, cls):
        r = self.rng
        x = r.random()
        if x < 0.55:
            return mk(r.choice(self.scalars))
        if x < 0.70:
            return mk(r.choice(self.ptrs))
        if x < 0.85:
            return self.enum(cls == 'wide' and r.random() < 0.6)
        if x < 0.93:
            return mk(r.choice(['callback', 'cbref']))
        if cls == 'hidden':
            return mk(r.choice(sorted(HIDDEN)))
        if cls == 'void':
            return mk('unknown')
        return mk(r.choice(self.scalars))

    def member(self, cls, depth, direct):
        r = self.rng
        x = r.random()
        if depth <= 0 or x < 0.55:
            m = self.leaf(cls)
            if m['k'] == 'callback' and not direct:
                m = mk('cbref')
            return m
        if x < 0.72:
            n = r.choice([1, 1, 2, 2, 3, 3, 4, 5, 7, 8, 9, 16, 17, 33, 0])
            return mk('array', n=n, sub=[self.member(cls, depth - 1, False)])
        if cls == 'anon' and direct and x < 0.86:
            sub = [self.member(cls, depth - 1, True) for _ in range(r.randint(1, 4))]
            if sub[0]['k'] in ANON and not sub[0]['sub']:
                sub[0] = mk('uint8')
            return mk(r.choice(ANON), sub=sub)
        return mk(r.choice(['struct', 'union']), sub=[self.member(cls, depth - 1, True) for _ in range(r.randint(0 if r.random() < 0.05 else 1, 5))])

    def case(self, i, cls):
        r = self.rng
        n = r.choice([1, 2, 3, 4, 5, 5, 6, 7, 8, 10, 12])
        ms = [self.member(cls, r.choice([1, 2, 2, 3]), True) for _ in range(n)]
        # make sure the class feature is present
        if cls == 'anon' and not any(m['k'] in ANON for m in ms):
            ms.insert(r.randint(0, len(ms)), mk(r.choice(ANON), sub=[self.leaf('plain'), self.leaf('plain')]))
        if cls == 'wide' and not any(m['k'] == 'enum' and self.wide(m['lo'], m['hi']) for m in walk(ms)):
            ms.insert(r.randint(0, len(ms)), self.enum(True))
        if cls == 'hidden' and not any(m['k'] in HIDDEN for m in walk(ms)):
            ms.insert(r.randint(0, len(ms)), mk(r.choice(sorted(HIDDEN))))
        if cls == 'void' and not any(m['k'] == 'unknown' for m in walk(ms)):
            ms.insert(r.randint(0, len(ms)), mk('unknown'))
        # first inner member of an anonymous member must lead to a named leaf (needed for offsetof)
        def fix(ms):
            for m in ms:
                if m['k'] in ANON:
                    if not m['sub']:
                        m['sub'] = [mk('uint8')]
                    fix(m['sub'])
        fix(ms)
        return dict(id='rnd/%s/%d' % (cls, i), rk='layout', kind=r.choice(['struct', 'struct', 'union']), ms=ms, lo=0, hi=0,
                    src='random', root_first=r.random() < 0.5)


def has_void(case):
    return any(m['k'] == 'unknown' for m in walk(case['ms']))


# ----------------------------------------------------------------------------- TLC verdicts in parallel
def verdicts(ck, obs, chunk, par):
    parts = [obs[k:k + chunk] for k in range(0, len(obs), chunk)]

    def one(args):
        k, part = args
        tf = os.path.join(ck.tmp, 'obs-%d.json' % k)
        vf = os.path.join(ck.tmp, 'verdict-%d.json' % k)
        with open(tf, 'w') as f:
            json.dump(part, f)
        for attempt in range(3):
            r = ck._tlc('LayoutTrace.tla', 'LayoutTrace.cfg', [], dict(TRACE_FILE=tf, VERDICT_FILE=vf, JAVA_TOOL_OPTIONS='-Xmx3g'), 6000, 1)
            if os.path.exists(vf) or r.get('error') or 'Finished in' in r['out']:
                break
            # the JVM vanished without a word (killed from outside: other sessions share this machine): run it again
            ck.notes.append('TLC verdict run %d died silently (rc=%s), retrying' % (k, r.get('rc')))
        if not os.path.exists(vf):
            raise MachineryError('trace spec LayoutTrace produced no verdict:\n%s' % r['out'][-3000:])
        v = json.load(open(vf))
        if v.get('n') != len(part):
            raise MachineryError('trace spec LayoutTrace consumed %s of %d records' % (v.get('n'), len(part)))
        if not ck.args.keep:
            os.unlink(tf)
        return v
    rejected, exercised = [], {}
    with ThreadPoolExecutor(par) as ex:
        for v in ex.map(one, list(enumerate(parts))):
            rejected += [tuple(x) for x in v.get('rejected', [])]
            for c, n in v.get('exercised', {}).items():
                exercised[c] = exercised.get(c, 0) + n
    ck.cov['traces_validated_against_impl'] += len(obs)
    ev = ck.cov.setdefault('clauses_exercised', {})
    for c, n in exercised.items():
        ev[c] = ev.get(c, 0) + n
    return rejected, exercised


def describe(case, o):
    r = render_case(case, 'X')
    s = 'GIR:\n' + GIR_HEAD.split('\n')[2] + '\n' + r.gir + '</namespace>\nC:\n' + (r.c or '(no C declaration: a member is typed void)\n')
    if case['rk'] == 'enum':
        s += 'typelib: storage_type=%s (api %s)   gcc: sizeof=%s signed=%s' % (o['storage'], o['api']['size'], o['gcc']['size'], o['gcc']['signed'])
    else:
        s += ('typelib (%s): produced=%s size=%s alignment=%s offsets=%s\napi:     size=%s alignment=%s offsets=%s\ngcc:     %s'
              % (o['via'], o['produced'], o['tl']['size'], o['tl']['align'], o['tl']['offs'], o['api']['size'], o['api']['align'],
                 o['api']['offs'], ('sizeof=%s _Alignof=%s offsetof=%s' % (o['gcc']['size'], o['gcc']['align'], o['gcc']['offs'])) if o['gcc']['ok'] else 'no declaration'))
    if case.get('_msg'):
        s += '\ncompiler: ' + case['_msg']
    return s


def csize(case):
    return sum(1 for _ in walk(case['ms']))


# ----------------------------------------------------------------------------- main
MC_QUICK = [('flat', 'Layout_flat_q.cfg', True), ('nest', 'Layout_nest_q.cfg', True), ('misc', 'Layout_misc_q.cfg', True),
            ('wide', 'Layout_wide.cfg', True), ('ucb', 'Layout_ucb.cfg', True)]
MC_THOROUGH = [('flat', 'Layout_flat.cfg', True), ('nest', 'Layout_nest.cfg', True), ('misc', 'Layout_misc.cfg', True),
               ('wide', 'Layout_wide.cfg', True), ('ucb', 'Layout_ucb.cfg', True)]
# configurations that MUST violate their invariant: the recorded deviations of the implementation layer from the property
# (anonymous members, members whose type the GIR does not describe) and the what-ifs EnumCap32 = TRUE (the enum width
# table as it was before fix 7607f22) and UnionFieldCallback = FALSE (the parser before fix 927c0d9)
WITNESS = [('anon', 'Layout_w_anon.cfg', 'ImplSatisfiesPropertyAll'), ('hidden', 'Layout_w_hidden.cfg', 'ImplSatisfiesPropertyAll'),
           ('whatif-union-callback', 'Layout_w_ucb.cfg', 'ImplSatisfiesPropertyAll'), ('whatif-enum32-members', 'Layout_w_wide.cfg', 'ImplSatisfiesPropertyAll'),
           ('whatif-enum32-table', 'Layout_w_enum.cfg', 'EnumOKAll')]
REPLAYED = ['flat', 'nest', 'misc', 'wide', 'anon', 'hidden', 'ucb']


def run():
    ck = Check(PID, 'translation_validation')
    a = ck.args
    ck.assumptions += [
        'platform: x86-64 System V, gcc of this machine is the referee; bit-fields are outside the statement and never generated',
        'C side built from REPO against the GLib declaration shim (cshim/include) and linked with the system GLib 2.74 runtime; '
        'the C declarations use the same shim typedefs (gboolean = int, gunichar = guint32, GType = gsize)',
        'GIR rendering follows what g-ir-scanner writes (checked against tests/scanner/Regress-1.0-expected.gir and a scanner run): embedded '
        'named types by <type name c:type>, anonymous members as nameless <record>/<union> children, by-value members of types the scanner '
        'cannot resolve as <field introspectable="0"><type c:type=".."/></field>, fixed arrays as <array fixed-size>',
        'StructBlob.size is compared as a signed 32-bit number (so the -1 of an unknown layout stays -1); offsets per member are matched '
        'by field name; an anonymous member has no FieldBlob by format and no offset is demanded for it',
        'enumerator values are carried as ranks against the 23 boundary values (Layout.tla Bnd); the concrete value of an odd rank is a '
        'seeded choice inside the open interval and is stored in the replay file',
        'drv_c08_lenient = REPO/tools/compiler.c with g_log_set_always_fatal neutralised: used only to observe what the library records for '
        'declarations on which the real g-ir-compiler aborts (its observations are marked via="lenient")',
    ]
    extra = os.environ.get('C08_EXTRA_FINDINGS')    # experiments only (mutation runs against a green baseline): additional known entries
    if extra:
        ck.findings += [f for f in json.load(open(extra)) if f.get('property') == PID]
        ck.notes.append('C08_EXTRA_FINDINGS=%s: %d additional known entries (not from known_findings.json)' % (extra, len(ck.findings)))
    replay = json.load(open(a.replay))['replay'] if a.replay else None
    tstart = time.time()
    mc_workers = 2 if ck.quick else min(NCPU, 6)
    pool = ThreadPoolExecutor(max(1, NCPU // mc_workers))
    mc_futs = {}
    exports = {}
    if not replay:
        # ------------------------------------------------------------ 1. model checking + case export (in the background)
        def mc(tag, cfg, ok, inv=None):
            cf = os.path.join(ck.tmp, 'cases-%s.json' % tag)
            exports[tag] = cf
            for attempt in range(3):
                r = ck.tlc_mc('LayoutCases', cfg, workers=mc_workers, timeout=3000 if ck.quick else 9000, coverage=False, expect_ok=False,
                              env={'CASES_FILE': cf, 'JAVA_TOOL_OPTIONS': '-Xmx4g'}, label=tag)
                if r['ok'] or r.get('error') or r.get('violated') or 'Finished in' in r['out']:
                    break
                ck.cov['tlc_runs'].pop()
                ck.notes.append('TLC run %s died silently (rc=%s), retrying' % (cfg, r.get('rc')))
            if ok and not r['ok']:
                raise MachineryError('TLC on LayoutCases/%s did not complete cleanly: %s\n%s' % (cfg, r.get('error'), r['out'][-3000:]))
            if not ok and r.get('violated') != inv:
                raise MachineryError('witness configuration %s did not violate %s (deviation no longer modelled?): %s' % (cfg, inv, r.get('error')))
            return r
        dev = os.environ.get('C08_DEV_CASES')       # development aid: reuse the case files of an earlier --keep run, skip model checking
        if dev:
            for tag in REPLAYED:
                exports[tag] = os.path.join(dev, 'cases-%s.json' % tag)
        else:
            for tag, cfg, ok in (MC_QUICK if ck.quick else MC_THOROUGH):
                mc_futs[tag] = pool.submit(mc, tag, cfg, ok)
            for tag, cfg, inv in WITNESS:
                mc_futs[tag] = pool.submit(mc, tag, cfg, False, inv)
    R = Runner(ck)
    cases = []
    if not replay:
        for tag in mc_futs:
            mc_futs[tag].result()
        ck.notes.append('model checking + C build %.1fs' % (time.time() - tstart))
        ck.cov['exhaustive'] = not os.environ.get('C08_DEV_CASES')
        # ------------------------------------------------------------ 2. cases
        rng = ck.rng
        total_tlc = 0
        bnd = None
        scalars = []
        # replayed declarations per exported space: everything in the quick tier; in the thorough tier (4-member flat sequences,
        # 230-member nest alphabet) every shorter sequence and a seeded sample of the longest ones (C08_LIMIT=0: everything)
        lim = int(os.environ.get('C08_LIMIT', '0' if ck.quick else '40000')) or None
        for tag in REPLAYED:
            ex, cs, total = cases_from_export(exports[tag], tag, limit=lim, rng=rng)
            if lim and total > len(cs):
                ck.notes.append('%s: %d of the %d exported declarations replayed on the real code (all shorter sequences + a seeded sample of the '
                                'longest; C08_LIMIT=%d); the model checking above covers all of them' % (tag, len(cs), total, lim))
                ck.cov['replay_sampled'] = True
            bnd = ex['bnd']
            total_tlc += total
            if tag == 'misc':
                # every scalar kind between two bytes; every enumeration range
                for m in ex['scalars']:
                    scalars.append(m['k'])
                    for kd in ('struct', 'union'):
                        cs.append(dict(id='misc/%s/scalar-%s' % (kd[0].upper(), m['k']), rk='layout', kind=kd, ms=[mk('uint8'), m, mk('uint8')], lo=0, hi=0, src='misc'))
                for lo, hi in ex['enums']:
                    cs.append(dict(id='enum/%d-%d' % (lo, hi), rk='enum', kind='enum', ms=[], lo=lo, hi=hi, src='misc', flags=(lo + hi) % 4 == 0 and lo >= 18))
            cases += cs
        ranks = Ranks(bnd)
        if sorted(set(scalars)) != sorted(set(SCALAR) | set(POINTERS)):
            raise MachineryError('scalar kinds of Layout.tla and of the renderer differ: %s' % sorted(set(scalars) ^ (set(SCALAR) | set(POINTERS))))
        n_exh = len(cases)
        cases += corpus_cases(ranks)
        g = Gen(rng, ranks, scalars)
        nr = 1500 if ck.quick else 20000
        for i in range(nr):
            cls = 'plain' if i % 10 < 6 else ['void', 'anon', 'wide', 'hidden'][i % 10 - 6]
            cases.append(g.case(i, cls))
        ck.cov['cases'] = dict(tlc_enumerated=n_exh, corpus=len(cases) - n_exh - nr, random=nr)
    else:
        ranks = None
        cases = [replay['case']]
    for c in cases:
        concretise(c, ranks, ck.seed)
    if len({c['id'] for c in cases}) != len(cases):
        raise MachineryError('case ids are not unique')

    S = dict(obs=0, jobs=0, t_real=0.0, t_tlc=0.0, spec_fail=[], drift={}, exercised={}, samples=[])
    nogcc = dict(ok=False, size=0, align=0, offs=[], signed=False)

    def process(group):
        """3. the real code in batches, 4. verdicts by TLC -- for one group of cases"""
        byid = {c['id']: c for c in group}
        t0 = time.time()
        with_c = [c for c in group if not has_void(c)]
        gjobs = [with_c[k:k + BATCH] for k in range(0, len(with_c), BATCH)]
        if replay:
            tjobs = [([group[0]], replay.get('via', 'compiler'))]
        else:
            single = [c for c in group if risky(c)]
            plain = [c for c in group if not has_void(c) and not risky(c)]
            void = [c for c in group if has_void(c) and not risky(c)]
            tjobs = [(plain[k:k + BATCH], 'compiler') for k in range(0, len(plain), BATCH)]
            tjobs += [(void[k:k + BATCH], 'lenient') for k in range(0, len(void), BATCH)]
            tjobs += [([c], 'lenient' if has_void(c) else 'compiler') for c in single]
            # the real g-ir-compiler on declarations with a void member, one process each (it aborts on its own warning)
            k = 24 if ck.quick else 40
            allvoid = [c for c in group if has_void(c)]
            for c in (allvoid[:k // 2] + ck.rng.sample(allvoid, min(len(allvoid), k // 2))):
                c2 = dict(c, id=c['id'] + '@compiler')
                if c2['id'] not in byid:
                    byid[c2['id']] = c2
                    tjobs.append(([c2], 'compiler'))
        tls, gcs = {}, {}
        with ThreadPoolExecutor(NCPU) as ex:
            gf = [ex.submit(R.gcc_job, j) for j in gjobs]
            tf = [ex.submit(R.typelib_job, *j) for j in tjobs]
            for f in gf:
                gcs.update(f.result())
            for f in tf:
                tls.update(f.result())
        obs = [observation(byid[i], t, gcs.get(i.split('@')[0], nogcc)) for i, t in tls.items()]
        ck.count(len(obs))
        S['obs'] += len(obs)
        S['jobs'] += len(tjobs) + len(gjobs)
        S['t_real'] += time.time() - t0
        t0 = time.time()
        rejected, exercised = verdicts(ck, obs, 2500 if ck.quick else 5000, max(1, NCPU // 2))
        S['t_tlc'] += time.time() - t0
        for c, n in exercised.items():
            S['exercised'][c] = S['exercised'].get(c, 0) + n
        obyid = {o['id']: o for o in obs}
        rejected.sort(key=lambda x: (csize(byid[x[0]]), x[0]))
        for oid, clause, detail in rejected:
            case, o = byid[oid], obyid[oid]
            if clause.startswith('SPEC_'):
                S['spec_fail'].append((oid, clause, describe(case, o)))
                continue
            if clause.startswith('DRIFT_'):
                S['drift'].setdefault(clause + ' ' + detail, []).append(oid)
                continue
            sig = dict(clause=clause, cls=detail)
            rp = dict(case={k: v for k, v in case.items() if not k.startswith('_')}, via=o['via'])
            ck.violation(sig, '%s [%s] on %s %s\n%s' % (clause, detail, case['rk'], oid, describe(case, o)), rp)
        for o in obs:
            if o['rk'] == 'layout' and o['gcc']['ok']:
                # non-trivial: the declaration nests, or it has several members (padding decisions)
                if any(m['sub'] for m in o['ms']) or len(o['gcc']['offs']) > 1:
                    ck.nontrivial(o['id'])
        if len(S['samples']) < 3:
            S['samples'] += ([x for x in obs if x['rk'] == 'layout' and x['gcc']['ok'] and len(x['ms']) >= 3][:2] + [x for x in obs if x['rk'] == 'enum'][:1])

    GROUP = 40000
    for k in range(0, len(cases), GROUP):
        process(cases[k:k + GROUP])
    ck.notes.append('real-code runs %.1fs (%d observations, %d compiler and gcc runs, %d declarations the compiler refused)'
                    % (S['t_real'], S['obs'], S['jobs'], R.compile_fail))
    ck.notes.append('TLC verdict %.1fs' % S['t_tlc'])
    if R.api_crashes:
        ck.notes.append('the repository API walk (drv_c08) died on %d typelibs; the declarations behind the crash were asked again one by one' % R.api_crashes)
    for c, ids in sorted(S['drift'].items()):
        ck.notes.append('%s on %d records, e.g. %s' % (c, len(ids), ids[0]))
    ck.cov['drift'] = {c: len(v) for c, v in S['drift'].items()}
    if S['spec_fail']:
        oid, clause, text = S['spec_fail'][0]
        raise MachineryError('calibration failed (%d records): the ABI layer of Layout.tla disagrees with gcc, e.g. %s on %s\n%s'
                             % (len(S['spec_fail']), clause, oid, text))
    if not replay:
        core = ['TypelibEqualsGcc', 'ApiEqualsGcc', 'ApiReads', 'Compiled', 'UnknownAsUnknown', 'ApiUnknownAsUnknown', 'EnumSizeEqualsGcc',
                'EnumSignEqualsGcc', 'ApiEnumStorage', 'SPEC_LayoutEqualsGcc', 'SPEC_EnumEqualsGcc']
        empty = [c for c in core if not S['exercised'].get(c)]
        if empty:
            raise MachineryError('clauses never exercised: %s' % empty)
    for o in S['samples'][:3]:
        ck.sample(dict(id=o['id'], kind=o['kind'], members=[m['k'] for m in o['ms']], typelib=o['tl'], gcc=o['gcc'], storage=o['storage']))
    ck.cov['rule'] = ('an evaluation = one declaration (struct, union or enumeration) compiled by g-ir-compiler and by gcc and compared '
                      '(size, alignment, every member offset / storage type; typelib bytes and repository API); non-trivial = declarations '
                      'with nested members or more than one member')
    return ck.finish()


if __name__ == '__main__':
    main_wrapper(PID, run)

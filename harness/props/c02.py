"""C02 -- Undocumented APIs get the documented default ownership, types and roles.

1. TLC model-checks tla/Defaults.tla (DefaultsMC): implementation-shaped layer => property layer for
   every spelling (base word x pointer depth 0-3 x const/volatile per level) x position
   {param, return, field, constant} and every arrangement of <= 5 parameters drawn from
   {callback, user_data, other gpointer, destroy notify, async-ready callback, int, GError**}
   x {function, method, callback typedef}.  The same runs export the case sets (ndjson).
2. The exported cases (quick: a seeded stratified sample, thorough: all) plus seeded random longer
   parameter lists in the same schema are rendered with the symgen builders of harness/scan.py into
   declarations WITHOUT comment blocks (the tiny `ann` supplement carries one bare direction annotation)
   and scanned by the REAL pipeline from REPO, hundreds of declarations per namespace.
3. The emitted GIR is projected per case (type name, c:type parsed into the spelling abstraction,
   element types, transfer-ownership, nullable, direction, scope/closure/destroy, throws, emitted
   parameters) and TLC evaluates the property clauses on every observation (tla/DefaultsTrace.tla).
   Python never decides.
"""
import json, os, re, sys
import multiprocessing
import xml.etree.ElementTree as ET

from ..common import Check, MachineryError, main_wrapper, parse_error_trace, tla_to_py, REPO

PID = 'C02'
QWORD = {'': '', 'c': 'const', 'v': 'volatile', 'cv': 'const volatile'}
ROLE_TYPE = {'cb': 'FooCb', 'ud': 'gpointer', 'pt': 'gpointer', 'dn': 'GDestroyNotify', 'as': 'GAsyncReadyCallback',
             'in': 'int', 'er': 'GError **'}
ROLE_NAME = {'cb': 'callback', 'ud': 'user_data', 'pt': 'ptr', 'dn': 'notify', 'as': 'ready', 'in': 'count', 'er': 'error'}
NAME_ROLE = {v: k for k, v in ROLE_NAME.items()}
ANN_TEXT = {'out': '(out)', 'inout': '(inout)', 'outcaller': '(out caller-allocates)', 'outcallee': '(out callee-allocates)'}
BATCH = 1500


# ------------------------------------------------------------------ abstract case -> text
def spelling(c):
    """[base, depth, quals] -> C spelling understood by harness.scan.ctype()"""
    q = c['quals']
    s = (QWORD[q[0]] + ' ' + c['base']).strip()
    for k in range(c['depth']):
        s += ' *' + (' ' + QWORD[q[k + 1]] if q[k + 1] else '')
    return s


def case_id(c):
    if c['k'] == 'val':
        return 'val/%s%s/%s%s' % (c['pos'], ('+' + c['ann']) if c['ann'] else '', 'typedef:' if c.get('alias') else '', spelling(c))
    return 'arr/%s/%s' % (c['kind'], ','.join(c['roles']) or '-')


def param_names(roles):
    """the naming rule shared with tla/Defaults.tla (UDExact): a role that occurs once gets its plain
    name (the only user-data pointer is called exactly `user_data`), repeated roles get p<pos>_<name>
    (a repeated user-data pointer still ends in 'data')"""
    return [ROLE_NAME[r] if roles.count(r) == 1 else 'p%d_%s' % (i + 1, ROLE_NAME[r]) for i, r in enumerate(roles)]


def parse_ctype(text):
    """c:type attribute -> (base words, pointer depth, qualifiers per level)"""
    toks = re.findall(r'\*|[A-Za-z_][A-Za-z0-9_]*', text or '')
    words, levels = [], [set()]
    for t in toks:
        if t == '*':
            levels.append(set())
        elif t in ('const', 'volatile'):
            levels[-1].add(t[0])
        else:
            words.append(t)
    return ' '.join(words), len(levels) - 1, [('c' if 'c' in l else '') + ('v' if 'v' in l else '') for l in levels]


# ------------------------------------------------------------------ rendering + scanning + projecting
def run_batch(S, cases):
    """cases: list of (id, case) -> list of observation records [id, c, o]"""
    syms = [S.typedef_struct('FooRec', '_FooRec'), S.struct_def('_FooRec', [('int', 'a')]),
            S.typedef_enum('FooEnum', [('FOO_ENUM_A', 0), ('FOO_ENUM_B', 1)]),
            S.typedef_struct('FooObj', '_FooObj'), S.struct_def('_FooObj', [('int', 'dummy')]),
            S.callback('FooCb', 'void', [('int', 'x'), ('gpointer', 'user_data')])]
    comments = []
    where = {}
    fields = []
    for n, (cid, c) in enumerate(cases):
        if c['k'] == 'val':
            sp = spelling(c)
            if c.get('alias'):
                # the value is declared through a typedef of the namespace; the spelling is its target
                syms.append(S.alias('FooAl%d' % n, sp, line=n + 10))
                sp = 'FooAl%d' % n
            if c['pos'] == 'param':
                ident = 'foo_v%d' % n
                syms.append(S.function(ident, 'void', [(sp, 'x')], line=n + 10))
                if c['ann']:
                    comments.append(('/**\n * %s:\n * @x: %s\n */' % (ident, ANN_TEXT[c['ann']]), '/src/foo.c', n + 10))
                where[cid] = ('function', ident)
            elif c['pos'] == 'return':
                ident = 'foo_v%d' % n
                syms.append(S.function(ident, sp, [], line=n + 10))
                where[cid] = ('function', ident)
            elif c['pos'] == 'field':
                fields.append((sp, 'f%d' % n))
                where[cid] = ('field', 'f%d' % n)
            else:
                ident = 'FOO_C%d' % n
                syms.append(S.const_int(ident, 5, sp, line=n + 10))
                where[cid] = ('constant', ident)
        else:
            roles = c['roles']
            ps = [(ROLE_TYPE[r], nm) for r, nm in zip(roles, param_names(roles))]
            if c['kind'] == 'function':
                ident = 'foo_a%d' % n
                syms.append(S.function(ident, 'void', ps, line=n + 10))
                where[cid] = ('function', ident)
            elif c['kind'] == 'method':
                ident = 'foo_obj_m%d' % n
                syms.append(S.function(ident, 'void', [('FooObj *', 'self')] + ps, line=n + 10))
                where[cid] = ('method', ident)
            else:
                ident = 'FooK%d' % n
                syms.append(S.callback(ident, 'void', ps, line=n + 10))
                where[cid] = ('callback', ident)
    for j in range(0, len(fields), 200):
        tag = 'FooS%d' % (j // 200)
        syms.append(S.typedef_struct(tag, '_' + tag))
        syms.append(S.struct_def('_' + tag, fields[j:j + 200]))
    r = S.scan(syms, comments, warnings=False)
    # projection with ElementTree directly (harness.scan.girabs converts the whole tree, which dominates)
    root = ET.fromstring(r.xml.encode('utf-8'))
    ns = root.find(Q('namespace'))
    index = {'function': {}, 'method': {}, 'callback': {}, 'constant': {}, 'field': {}}
    for node in ns:
        a = node.attrib
        if node.tag == Q('function'):
            index['function'][a.get(C('identifier'))] = node
        elif node.tag == Q('callback'):
            index['callback'][a.get(C('type'))] = node
        elif node.tag == Q('constant'):
            index['constant'][a.get(C('type'))] = node
        elif node.tag == Q('record'):
            for ch in node:
                if ch.tag == Q('field'):
                    index['field'][ch.attrib.get('name')] = ch
                elif ch.tag in (Q('method'), Q('function'), Q('constructor')):
                    index['method'][ch.attrib.get(C('identifier'))] = ch
    out = []
    for cid, c in cases:
        kind, ident = where[cid]
        node = index[kind].get(ident)
        o = project_val(c, node) if c['k'] == 'val' else project_arr(c, node)
        out.append(dict(id=cid, c=c, o=o))
    return out


def Q(tag):
    return '{http://www.gtk.org/introspection/core/1.0}' + tag


def C(tag):
    return '{http://www.gtk.org/introspection/c/1.0}' + tag


def typenode(holder):
    if holder is None:
        return None
    t = holder.find(Q('type'))
    return t if t is not None else holder.find(Q('array'))


def project_val(c, node):
    holder = None
    if node is not None:
        if c['pos'] == 'param':
            pl = node.findall(Q('parameters') + '/' + Q('parameter'))
            holder = pl[0] if len(pl) == 1 else None
        elif c['pos'] == 'return':
            holder = node.find(Q('return-value'))
        else:
            holder = node
    t = typenode(holder)
    if t is None:
        return dict(present=False, tag='', name='', elems=[], cbase='', cdepth=0, cquals=[''], transfer='', nullable=False,
                    direction='', callerAlloc=False)
    a = holder.attrib if c['pos'] in ('param', 'return') else {}
    cb, cd, cq = parse_ctype(t.attrib.get(C('type')))
    name = t.attrib.get('name', '')
    if c.get('alias'):
        # the per-case typedef name FooAl<n> / Al<n> is normalised to the spec's FooAlias / Alias
        cb = re.sub(r'^FooAl\d+$', 'FooAlias', cb)
        name = re.sub(r'^Al\d+$', 'Alias', name)
    return dict(present=True, tag=t.tag.rpartition('}')[2], name=name,
                elems=[e.attrib.get('name', '') for e in t if e.tag in (Q('type'), Q('array'))],
                cbase=cb, cdepth=cd, cquals=cq, transfer=a.get('transfer-ownership', ''),
                nullable=a.get('nullable') == '1',
                direction=a.get('direction', 'in') if c['pos'] == 'param' else '',
                callerAlloc=a.get('caller-allocates') == '1')


def project_arr(c, node):
    if node is None:
        return dict(present=False, throws=False, params=[])
    params = []
    for p in node.findall(Q('parameters') + '/' + Q('parameter')):
        a = p.attrib
        nm = re.sub(r'^p\d+_', '', a.get('name', ''))
        params.append(dict(role=NAME_ROLE.get(nm, '?'), scope=a.get('scope', ''), closure=int(a.get('closure', -1)),
                           destroy=int(a.get('destroy', -1)), transfer=a.get('transfer-ownership', ''),
                           nullable=a.get('nullable') == '1'))
    return dict(present=True, throws=node.attrib.get('throws') == '1', params=params)


def _batch_worker(items):
    from .. import scan as S
    return run_batch(S, items)


# ------------------------------------------------------------------ case selection
def read_cases(path):
    return [json.loads(l) for l in open(path) if l.strip()]


def sample_vals(cases, rng, per_cell):
    """every (base, depth, position) cell: the unqualified spelling, the all-const one and `per_cell`
    seeded others; all annotated supplement cases"""
    cells = {}
    for c in cases:
        cells.setdefault((c['base'], c['depth'], c['pos'], bool(c.get('alias'))), []).append(c)
    out = []
    for key in sorted(cells):
        lst = sorted(cells[key], key=lambda c: c['quals'])
        keep = [c for c in lst if c['ann'] or c.get('alias') or set(c['quals']) <= {''} or set(c['quals']) == {'c'}
                or (c['base'] in ('void', 'char', 'gchar', '_Bool', 'bool', 'int', 'FooRec') and c['depth'] <= 1)]
        rest = [c for c in lst if c not in keep]
        keep += rng.sample(rest, min(per_cell, len(rest)))
        out += keep
    return out


def sample_arrs(cases, rng, n_other):
    """all function arrangements; a seeded sample of the method / callback-typedef ones"""
    out = [c for c in cases if c['kind'] == 'function']
    rest = [c for c in cases if c['kind'] != 'function']
    out += [c for c in rest if len(c['roles']) <= 3]
    big = [c for c in rest if len(c['roles']) > 3]
    out += rng.sample(big, min(n_other, len(big)))
    return out


def random_arrs(rng, n):
    """longer parameter lists than the exhaustive bound, same schema"""
    out, seen = [], set()
    weights = [('cb', 4), ('ud', 4), ('dn', 3), ('as', 2), ('pt', 2), ('in', 2), ('er', 2)]
    bag = [r for r, w in weights for _ in range(w)]
    while len(out) < n:
        ln = rng.randint(6, 10)
        roles = [rng.choice(bag) for _ in range(ln)]
        if rng.random() < 0.4:
            roles[-1] = 'er'
        kind = rng.choice(['function', 'function', 'method', 'callback'])
        key = (kind, tuple(roles))
        if key in seen:
            continue
        seen.add(key)
        out.append(dict(k='arr', kind=kind, roles=roles))
    return out


# ------------------------------------------------------------------ main
def sig_of(clause, c):
    if c['k'] == 'val':
        return dict(clause=clause, pos=c['pos'], base=c['base'], ptr=c['depth'] > 0,
                    quals=''.join(sorted(set(''.join(c['quals'])))), ann=c['ann'], typedef=bool(c.get('alias')))
    return dict(clause=clause, kind=c['kind'], roles=','.join(c['roles']))


def run():
    ck = Check(PID, 'model_checking')
    a = ck.args
    from .. import scan as S
    ck.assumptions += [
        'giscanner._giscanner (C lexer/parser) is replaced by symgen (harness/scan.py): a declaration is handed to '
        'Transformer.parse() as the raw symbol/type objects scannerparser.y would build (qualifiers as type_qualifier '
        'flags per level, multi-word basic types joined by one space in source order, typedef names as CTYPE_TYPEDEF)',
        'typed constants are `#define X ((T) 5)` symbols: CSYMBOL_TYPE_CONST with const_int and base_type = T',
        'GLib/GObject/Gio are the synthetic dependency GIRs of harness/data/gir (DestroyNotify, AsyncReadyCallback, '
        'Error, List/SList/HashTable/Array/PtrArray/ByteArray, alias GObject.Type as in the real GIRs)',
        'the c:type attribute is compared after parsing it into (base words, pointer depth, const/volatile set per '
        'level): the relative order of `const` and `volatile` inside one level is not part of the spelling',
        'parameter names follow the rule stated in tla/Defaults.tla (the only user-data pointer of a callable is named '
        'exactly user_data, repeated ones p<k>_user_data; the other gpointer is named ptr)',
        'the out/inout default is only reachable through a direction annotation; those (160 of ~38k) cases carry that one '
        'bare annotation and nothing else',
    ]
    rng = ck.rng

    if a.replay:
        rp = json.load(open(a.replay))['replay']
        cases = [rp['case']]
    else:
        # ------------------------------------------------------------ 1. model checking + case export
        vf = os.path.join(ck.tmp, 'val.ndjson')
        af = os.path.join(ck.tmp, 'arr.ndjson')
        ck.tlc_mc('DefaultsMC', 'Defaults_types_q.cfg' if ck.quick else 'Defaults_types.cfg', workers=8, timeout=170, env={'CASES_FILE': vf},
                  label='exhaustive: impl layer => property layer, all spellings x positions')
        ck.tlc_mc('DefaultsMC', 'Defaults_arr.cfg', workers=8, timeout=170, env={'CASES_FILE': af},
                  label='exhaustive: impl layer => property layer, all arrangements of <=5 parameters x callable kinds')
        ck.cov['exhaustive'] = True
        vals, arrs = read_cases(vf), read_cases(af)
        nv, na = len(vals), len(arrs)
        # witnesses of the triaged deviations: TLC counterexample of "no deviation" -> replayed below
        wits = []
        for cfg in (['Defaults_w.cfg'] if ck.quick else ['Defaults_w_d1.cfg', 'Defaults_w_d2.cfg', 'Defaults_w_d3.cfg']):
            r = ck.tlc_mc('DefaultsMC', cfg, workers=4, timeout=170, expect_ok=False, coverage=False,
                          label='witness search: a case where the implementation layer deviates from the property layer')
            if not r.get('violated'):
                raise MachineryError('model has no deviation witness under %s: %s' % (cfg, r.get('error')))
            st = parse_error_trace(r['out'])
            wits.append(tla_to_py(st[-1][1]['case']))
        if ck.quick:
            vals = sample_vals(vals, rng, 2)
            arrs = sample_arrs(arrs, rng, 3000)
        rand = random_arrs(rng, 1500 if ck.quick else 20000)
        cases = vals + arrs + rand
        ck.cov['cases'] = dict(exported_val=nv, exported_arr=na, replayed_val=len(vals), replayed_arr=len(arrs),
                               random_longer_arr=len(rand), witnesses=[case_id(w) for w in wits])
        known = set(case_id(c) for c in cases)
        cases += [w for w in wits if case_id(w) not in known]
        # drift of the table itself: keys of the code's table the specification does not know
        sys.path.insert(0, REPO)
        from giscanner import ast as gast
        spec_bases = set(c['base'] for c in vals)
        missing = sorted(k for k in gast.type_names if k.rstrip('*') not in spec_bases)
        if missing:
            ck.notes.append('keys of ast.type_names not in the table of tla/Defaults.tla (not checked): %s' % missing)

    # ---------------------------------------------------------------- 2. real scanner
    by_id = {}
    for c in cases:
        by_id.setdefault(case_id(c), c)
    items = sorted(by_id.items())
    rng.shuffle(items)          # mix kinds/positions in every namespace
    obs = []
    batches = [items[k:k + BATCH] for k in range(0, len(items), BATCH)]
    if len(batches) > 1:
        with multiprocessing.get_context('fork').Pool(min(8, len(batches))) as pool:
            for part in pool.map(_batch_worker, batches):
                obs += part
    else:
        for b in batches:
            obs += run_batch(S, b)
    ck.count(len(items))

    # ---------------------------------------------------------------- 3. verdicts by TLC
    rejected, exercised = ck.tlc_verdict('DefaultsTrace', obs, chunk=30000, timeout=170)
    obs_by_id = {o['id']: o for o in obs}
    ndrift = 0
    for rid, clause, detail in rejected:
        o = obs_by_id[rid]
        if clause == 'DRIFT':
            ndrift += 1
            if ndrift <= 20:
                ck.notes.append('DRIFT %s (%s): observed %s' % (rid, detail, json.dumps(o['o'], sort_keys=True)))
            continue
        ck.violation(sig_of(clause, o['c']),
                     '%s: clause %s rejected%s\n  case %s\n  observed %s' % (
                         rid, clause, ' (%s)' % detail if detail != '-' else '', json.dumps(o['c'], sort_keys=True),
                         json.dumps(o['o'], sort_keys=True)),
                     dict(id=rid, case=o['c'], observed=o['o'], clause=clause))
    ck.cov['drifted'] = ndrift
    if not a.replay:
        core = ['TypeName', 'StrvArray', 'CTypeKept', 'InNone', 'OutFull', 'RetBasicNone', 'RetConstNone', 'RetStringFull',
                'PtrNullable', 'Throws', 'Closure', 'Destroy', 'NotifiedScope', 'AsyncScope']
        vac = [c for c in core if not exercised.get(c)]
        if vac:
            raise MachineryError('core clauses never exercised (generator bug): %s' % vac)
    ck.cov['rule'] = ('an evaluation = one declaration (value in one position, or one callable) scanned by the real pipeline and '
                      'judged by TLC; non-trivial = a value with a pointer or qualifier or a non-identity table entry, or a '
                      'callable with at least one callback parameter; distinct by abstract case')
    for o in obs:
        c = o['c']
        if c['k'] == 'val':
            if c['depth'] > 0 or any(c['quals']) or c.get('alias') or o['o']['name'] != c['base']:
                ck.nontrivial(o['id'])
        elif any(r in ('cb', 'as') for r in c['roles']):
            ck.nontrivial(o['id'])
    for o in obs[:3]:
        ck.sample(o)
    return ck.finish()


if __name__ == '__main__':
    main_wrapper(PID, run)

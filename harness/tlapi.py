"""tlapi -- C09: joins what the repository API reported (harness/cdrv/drv_walk.c, one JSON line per directory entry)
and what g-ir-generate wrote with the independent decoding of the same typelib (harness/tlabs.py) into observation
records for tla/TypelibTrace.tla (clause families of tla/TypelibApi.tla).

g = the blob as decoded + pos (where the format's section arithmetic puts the info: TLC evaluates Typelib!MemberOffset)
b = what the accessor calls returned.
Pairing is positional: the i-th info the API returns for a section is compared with the i-th blob of that section."""
import json, os, subprocess
import xml.etree.ElementTree as ET

from . import tlabs
from .tlgir import Proj, DUMMY, NOENV_KEY

ZC = dict(ni=0, cbs=[], np=0, nm=0, ns=0, nv=0, nc=0, nvals=0)
NOCREF = dict(has=False, base=0, ckind='struct', counts=ZC, names=[])
SENTINEL = 1023
KINDOF = {'struct': 'struct', 'boxed': 'struct', 'union': 'union', 'enum': 'enum', 'flags': 'enum', 'object': 'object',
          'interface': 'interface'}


def run_walk(drv, typelib_dir, ns, version='-', probes=(), indices=None, tmpdir=None, timeout=3000):
    """-> (header dict, [entry lines], returncode, stderr tail)"""
    cmd = [drv, ns, version or '-', ','.join(probes) if probes else '-']
    if indices is not None:
        ix = os.path.join(tmpdir or typelib_dir, 'walk-%s.idx' % ns)
        with open(ix, 'w') as f:
            f.write('\n'.join(str(i) for i in indices) + '\n')
        cmd.append(ix)
    env = dict(os.environ, GI_TYPELIB_PATH=typelib_dir, G_DEBUG='', G_SLICE='always-malloc')
    p = subprocess.run(cmd, stdout=subprocess.PIPE, stderr=subprocess.PIPE, env=env, timeout=timeout)
    hdr, lines = None, []
    for ln in p.stdout.decode('utf-8', 'surrogateescape').split('\n'):
        if not ln.strip():
            continue
        try:
            r = json.loads(ln)
        except ValueError:
            continue            # a truncated last line after a crash
        if r.get('hdr'):
            hdr = r
        else:
            lines.append(r)
    return hdr, lines, p.returncode, p.stderr.decode('utf-8', 'replace')[-500:]


def _pairs(lst):
    return [dict(name=n, value=v) for n, v in lst]


def _probes(lst):
    return [dict(q=q, found=f, value=v) for q, f, v in lst]


def _tnodes(nodes):
    return [dict(tag=n['tag'], ptr=n['ptr'], n=n['n'], alen=n['alen'], asize=n['asize'], azt=n['azt'], aty=n['aty'], ins=n['ins'],
                 iname=n['iname']) for n in nodes]


def _ref(r):
    return dict(name=r['name'], off=r['off'], ns=r['ns'])


class Join(object):
    def __init__(self, docid, dec, hdr, lines, max_find=40, rng=None, indices=None):
        self.id = docid
        self.dec = dec
        self.P = Proj(dec)
        self.hdr = hdr
        self.lines = lines
        self.obs = []
        self.roles = {}
        self.max_find = max_find
        self.rng = rng
        self.indices = indices

    def rec(self, path, kind, g, b, role):
        oid = '%s|%s|%s' % (self.id, path, kind)
        self.roles[oid] = role
        self.obs.append(dict(id=oid, kind=kind, found=b is not None, env=NOENV_KEY, g=g, b=b if b is not None else DUMMY))

    # ---- decoded side
    def gbase(self, blob, pos, deprecated=None):
        return dict(name=blob['name'], deprecated=blob.get('deprecated', 0) if deprecated is None else deprecated,
                    attrs=self.P.attrs(blob['at']), pos=pos)

    @staticmethod
    def bbase(a):
        return dict(name=a['name'], off=a['off'], dep=a['dep'], at=_pairs(a['at']), ab=_probes(a['ab']))

    def gcallable(self, g, ckind, blob, sig):
        g.update(ckind=ckind, sig={k: sig[k] for k in ('may_return_null', 'caller_owns_return_value', 'caller_owns_return_container',
                                                       'skip_return', 'instance_transfer_ownership', 'throws', 'n_arguments')},
                 blob_throws=blob.get('throws', 0) if ckind in ('function', 'vfunc') else 0,
                 constructor=blob.get('constructor', 0), is_static=blob.get('is_static', 0),
                 rattrs=self.P.attrs(sig['at']), rtype=self.P.type(sig['return_type']))

    @staticmethod
    def bcallable(b, a):
        b.update(can_throw=a['can_throw'], is_method=a['is_method'], owns=a['owns'], null=a['null'], skipret=a['skipret'],
                 inst=a['inst'], n_args=a['n_args'], rt=_tnodes(a['rt']), rat=_pairs(a['rat']), rab=_probes(a['rab']))

    def args(self, path, sig, a, role):
        for i, ab in enumerate(sig['args']):
            aa = a['args'][i] if i < len(a['args']) else None
            g = self.gbase(ab, dict(mode='arg', base=sig['at'], ckind='struct', counts=ZC, sec='fields', i=i), deprecated=0)
            g.update({k: ab[k] for k in ('in', 'out', 'caller_allocates', 'nullable', 'optional', 'transfer_ownership',
                                        'transfer_container_ownership', 'return_value', 'scope', 'skip', 'closure', 'destroy')})
            g['type'] = self.P.type(ab['type'])
            b = None
            if aa is not None:
                b = self.bbase(aa)
                b.update(dir=aa['dir'], ca=aa['ca'], opt=aa['opt'], retval=aa['retval'], null=aa['null'], skip=aa['skip'],
                         transfer=aa['transfer'], scope=aa['scope'], closure=aa['closure'], destroy=aa['destroy'], type=_tnodes(aa['type']))
            self.rec('%s/arg%d' % (path, i), 'api_arg', g, b, role + '/arg')

    def function(self, path, blob, a, pos, props, role):
        g = self.gbase(blob, pos)
        g.update({k: blob[k] for k in ('setter', 'getter', 'constructor', 'wraps_vfunc', 'throws', 'index', 'is_static', 'symbol')})
        g['props'] = props
        self.gcallable(g, 'function', blob, blob['signature'])
        b = None
        if a is not None:
            b = self.bbase(a)
            b.update(flags=a['flags'], symbol=a['symbol'], prop=_ref(a['prop']))
            self.bcallable(b, a)
        self.rec(path, 'api_function', g, b, role)
        if a is not None:
            self.args(path, blob['signature'], a, role)

    def callback(self, path, blob, a, pos, role):
        g = self.gbase(blob, pos)
        self.gcallable(g, 'callback', blob, blob['signature'])
        b = None
        if a is not None:
            b = self.bbase(a)
            self.bcallable(b, a)
        self.rec(path, 'api_callback', g, b, role)
        if a is not None:
            self.args(path, blob['signature'], a, role)

    def constant(self, path, blob, a, pos, role):
        g = self.gbase(blob, pos)
        g.update(type=self.P.type(blob['type']), value_hex=blob['value_hex'], value=blob['value'], size=blob['size'])
        b = None
        if a is not None:
            b = self.bbase(a)
            b.update(type=_tnodes(a['type']), vhex=a['vhex'], vstr=a['vstr'], size=a['size'])
        self.rec(path, 'api_constant', g, b, role)

    def field(self, path, blob, a, pos, role):
        g = self.gbase(blob, pos, deprecated=0)
        g.update({k: blob[k] for k in ('readable', 'writable', 'bits', 'struct_offset', 'has_embedded_type')})
        g['type'] = self.P.type(blob['type']) if 'type' in blob else []
        b = None
        if a is not None:
            b = self.bbase(a)
            b.update(flags=a['flags'], bits=a['bits'], soff=a['soff'], emb=a['emb'], type=_tnodes(a['type']))
        self.rec(path, 'api_field', g, b, role)
        if a is not None and 'callback' in blob and 'cb' in a:
            self.callback(path + '/cb', blob['callback'], a['cb'],
                          dict(mode='embedded', base=blob['at'], ckind='struct', counts=ZC, sec='fields', i=0), role + '/callback')

    def prop(self, path, blob, a, pos, methods, role):
        g = self.gbase(blob, pos)
        g.update({k: blob[k] for k in ('readable', 'writable', 'construct', 'construct_only', 'transfer_ownership',
                                      'transfer_container_ownership', 'setter', 'getter')})
        g.update(type=self.P.type(blob['type']), methods=methods)
        b = None
        if a is not None:
            b = self.bbase(a)
            b.update(flags=a['flags'], transfer=a['transfer'], type=_tnodes(a['type']), setter=_ref(a['setter']), getter=_ref(a['getter']))
        self.rec(path, 'api_property', g, b, role)

    def signal(self, path, blob, a, pos, role):
        g = self.gbase(blob, pos)
        g.update({k: blob[k] for k in ('run_first', 'run_last', 'run_cleanup', 'no_recurse', 'detailed', 'action', 'no_hooks',
                                      'has_class_closure', 'true_stops_emit')})
        self.gcallable(g, 'signal', blob, blob['signature'])
        b = None
        if a is not None:
            b = self.bbase(a)
            b.update(flags=a['flags'], tse=a['tse'], cc=_ref(a['cc']))
            self.bcallable(b, a)
        self.rec(path, 'api_signal', g, b, role)
        if a is not None:
            self.args(path, blob['signature'], a, role)

    def vfunc(self, path, blob, a, pos, methods, role):
        g = self.gbase(blob, pos, deprecated=0)
        g.update({k: blob[k] for k in ('must_chain_up', 'must_be_implemented', 'must_not_be_implemented', 'class_closure', 'throws',
                                      'struct_offset', 'invoker')})
        g['methods'] = methods
        self.gcallable(g, 'vfunc', blob, blob['signature'])
        b = None
        if a is not None:
            b = self.bbase(a)
            b.update(flags=a['flags'], soff=a['soff'], invoker=_ref(a['invoker']), signal=_ref(a['signal']))
            self.bcallable(b, a)
        self.rec(path, 'api_vfunc', g, b, role)
        if a is not None:
            self.args(path, blob['signature'], a, role)

    def value(self, path, blob, a, pos, role):
        g = self.gbase(blob, pos)
        v = blob['value'] & 0xffffffff
        g.update(value32=[v & 0xffff, v >> 16], unsigned_value=blob['unsigned_value'])
        b = None
        if a is not None:
            b = self.bbase(a)
            b['vl'] = a['vl']
        self.rec(path, 'api_value', g, b, role)

    def find_sample(self, finds):
        if len(finds) <= self.max_find:
            return finds
        head, tail = finds[:self.max_find // 4], finds[-self.max_find // 4:]
        mid = finds[self.max_find // 4:-self.max_find // 4]
        step = max(1, len(mid) // (self.max_find // 2))
        return head + mid[::step][:self.max_find // 2] + tail

    def container(self, path, blob, a, role):
        kind = KINDOF[blob['kind']]
        con = self.P.container(blob)
        counts = con['counts']
        pos0 = dict(mode='abs', base=blob['at'], ckind=kind, counts=ZC, sec='fields', i=0)
        g = self.gbase(blob, pos0)
        names = dict(fields=[m['name'] for m in blob.get('fields', [])], methods=[m['name'] for m in blob.get('methods', [])],
                     signals=[m['name'] for m in blob.get('signals', [])], vfuncs=[m['name'] for m in blob.get('vfuncs', [])])
        g.update(at=blob['at'], kind=kind, counts=counts, names=names, gtype_name=blob.get('gtype_name', ''),
                 gtype_init=blob.get('gtype_init', ''))
        b = self.bbase(a) if a is not None else None
        if b is not None:
            b.update(tname=a['tname'], tinit=a['tinit'], find=[dict(k=f['k'], q=f['q'], off=f['off'], name=f['name'])
                                                             for f in self.find_sample(a.get('find', []))])
        if kind == 'struct':
            g.update({k: blob[k] for k in ('size', 'alignment', 'is_gtype_struct', 'foreign', 'copy_func', 'free_func', 'n_fields', 'n_methods')})
            if b is not None:
                b.update(size=a['size'], align=a['align'], gts=a['gts'], foreign=a['foreign'], copy=a['copy'], free=a['free'],
                         n_fields=a['n_fields'], n_methods=a['n_methods'])
            k = 'api_struct'
        elif kind == 'union':
            g.update({k: blob[k] for k in ('size', 'alignment', 'discriminated', 'discriminator_offset', 'copy_func', 'free_func',
                                          'n_fields', 'n_methods')})
            if b is not None:
                b.update(size=a['size'], align=a['align'], disc=a['disc'], doff=a['doff'], copy=a['copy'], free=a['free'],
                         n_fields=a['n_fields'], n_methods=a['n_methods'])
            k = 'api_union'
        elif kind == 'enum':
            g.update({k: blob[k] for k in ('storage_type', 'error_domain', 'n_values', 'n_methods')})
            if b is not None:
                b.update(storage=a['storage'], domain=a['domain'], n_values=a['n_values'], n_methods=a['n_methods'], find=[])
            k = 'api_enum'
        elif kind == 'object':
            g.update({k: blob[k] for k in ('abstract', 'final', 'fundamental', 'ref_func', 'unref_func', 'set_value_func', 'get_value_func',
                                          'n_interfaces', 'n_fields', 'n_properties', 'n_methods', 'n_signals', 'n_vfuncs', 'n_constants')})
            g.update(parent=self.P.refof(blob['parent']), gtype_struct=self.P.refof(blob['gtype_struct']),
                     interfaces=[self.P.refof(i) for i in blob['interfaces']])
            if b is not None:
                b.update(abstract=a['abstract'], final=a['final'], fund=a['fund'], ref=a['ref'], unref=a['unref'], setv=a['setv'],
                         getv=a['getv'], parent=_ref(a['parent']), cstruct=_ref(a['cstruct']), n_ifs=a['n_ifs'],
                         ifs=[dict(r=_ref(x['r'])) for x in a['ifs']],
                         **{'n_' + s: a['n_' + s] for s in ('fields', 'properties', 'methods', 'signals', 'vfuncs', 'constants')})
            k = 'api_object'
        else:
            g.update({k: blob[k] for k in ('n_prerequisites', 'n_properties', 'n_methods', 'n_signals', 'n_vfuncs', 'n_constants')})
            g.update(gtype_struct=self.P.refof(blob['gtype_struct']), prerequisites=[self.P.refof(i) for i in blob['prerequisites']])
            if b is not None:
                b.update(cstruct=_ref(a['cstruct']), n_ifs=a['n_ifs'], ifs=[dict(r=_ref(x['r'])) for x in a['ifs']],
                         **{'n_' + s: a['n_' + s] for s in ('properties', 'methods', 'signals', 'vfuncs', 'constants')})
            k = 'api_interface'
        self.rec(path, k, g, b, role)
        if a is None:
            return

        def mpos(sec, i):
            return dict(mode='member', base=blob['at'], ckind=kind, counts=counts, sec=sec, i=i)
        has = kind in ('object', 'interface')
        props = dict(has=has, base=blob['at'], ckind=kind, counts=counts, names=[m['name'] for m in blob.get('properties', [])]) if has else NOCREF
        methods = dict(has=True, base=blob['at'], ckind=kind, counts=counts, names=names['methods'])

        def nth(sec, i):
            lst = a.get(sec, [])
            return lst[i] if i < len(lst) else None
        for i, m in enumerate(blob.get('fields', [])):
            self.field('%s/field%d' % (path, i), m, nth('fields', i), mpos('fields', i), role + '/field')
        for i, m in enumerate(blob.get('properties', [])):
            self.prop('%s/prop%d' % (path, i), m, nth('properties', i), mpos('properties', i), methods, role + '/property')
        for i, m in enumerate(blob.get('methods', [])):
            self.function('%s/method%d' % (path, i), m, nth('methods', i), mpos('methods', i), props, role + '/method')
        for i, m in enumerate(blob.get('signals', [])):
            self.signal('%s/signal%d' % (path, i), m, nth('signals', i), mpos('signals', i), role + '/signal')
        for i, m in enumerate(blob.get('vfuncs', [])):
            self.vfunc('%s/vfunc%d' % (path, i), m, nth('vfuncs', i), mpos('vfuncs', i), methods, role + '/vfunc')
        for i, m in enumerate(blob.get('constants', [])):
            self.constant('%s/const%d' % (path, i), m, nth('constants', i), mpos('constants', i), role + '/constant')
        for i, m in enumerate(blob.get('values', [])):
            self.value('%s/value%d' % (path, i), m, nth('values', i), mpos('values', i), role + '/value')

    def run(self):
        dec, hdr = self.dec, self.hdr
        h = dec['header']
        byidx = {ln['i']: ln for ln in self.lines}
        # every directory entry that was asked for must be reported (a walker that died leaves entries out)
        want = sorted(self.indices) if self.indices is not None else list(range(h['n_local_entries']))
        g = dict(namespace=h['namespace'], nsversion=h['nsversion'], shared_library=h['shared_library'], c_prefix=h['c_prefix'],
                 deps=h['dependencies'].split('|') if h['dependencies'] else [], n_local=h['n_local_entries'],
                 entries=[dict(i=i, bt=dec['directory'][i]['blob_type'], name=dec['directory'][i]['name'],
                               offset=dec['directory'][i]['offset']) for i in want if i < len(dec['directory'])])
        b = None
        if hdr is not None:
            b = dict(ns=hdr['ns'], version=hdr['version'], shlib=hdr['shlib'], cprefix=hdr['cprefix'], deps=hdr['deps'],
                     n_infos=hdr['n_infos'],
                     infos=[dict(i=i, t=byidx[i]['e'].get('t', -1), name=byidx[i]['e'].get('name', ''), off=byidx[i]['e'].get('off', -1),
                                 crit=byidx[i].get('crit', 0)) for i in want if i in byidx])
        self.rec('', 'api_namespace', g, b, 'namespace')
        apikind = {'function': 'api_function', 'callback': 'api_callback', 'constant': 'api_constant', 'struct': 'api_struct',
                   'boxed': 'api_struct', 'union': 'api_union', 'enum': 'api_enum', 'flags': 'api_enum', 'object': 'api_object',
                   'interface': 'api_interface'}
        for i in want:
            if i >= len(dec['entries']):
                continue
            blob = dec['entries'][i]
            if i not in byidx:
                if blob.get('kind') in apikind:
                    self.rec(blob['name'], apikind[blob['kind']], DUMMY, None, blob['kind'])
                continue
            a = byidx[i]['e']
            if blob.get('kind') == 'xref' or a.get('t') != blob.get('blob_type'):
                continue        # reported under the wrong kind: the namespace record says so
            path = blob['name']
            pos = dict(mode='abs', base=blob['at'], ckind='struct', counts=ZC, sec='fields', i=0)
            k = blob['kind']
            if k == 'function':
                self.function(path, blob, a, pos, NOCREF, 'function')
            elif k == 'callback':
                self.callback(path, blob, a, pos, 'callback')
            elif k == 'constant':
                self.constant(path, blob, a, pos, 'constant')
            elif k in KINDOF:
                self.container(path, blob, a, k)
        return self.obs, self.roles


def join(docid, dec, hdr, lines, **kw):
    return Join(docid, dec, hdr, lines, **kw).run()


# ----------------------------------------------------------------------------- g-ir-generate
XNS = {'http://www.gtk.org/introspection/core/1.0': '', 'http://www.gtk.org/introspection/c/1.0': 'c:',
       'http://www.gtk.org/introspection/glib/1.0': 'glib:'}


def _ln(tag):
    if tag.startswith('{'):
        uri, n = tag[1:].split('}', 1)
        return XNS.get(uri, '?:') + n
    return tag


def _at(el):
    return {_ln(k): v for k, v in el.attrib.items()}


def _kids(el, *names):
    return [c for c in el if _ln(c.tag) in names]


def _xattrs(el):
    return [dict(name=c.get('name', ''), value=c.get('value', '')) for c in _kids(el, 'attribute')]


def _qref(own, name):
    if not name:
        return dict(ns='', n='')
    if '.' in name:
        ns, n = name.split('.', 1)
        return dict(ns=ns, n=n)
    return dict(ns=own, n=name)


def _int(v):
    try:
        return int(v)
    except (TypeError, ValueError):
        return -1


def run_generate(generate, typelib, dirs, timeout=3000):
    env = dict(os.environ, GI_TYPELIB_PATH=':'.join(dirs), G_DEBUG='')
    p = subprocess.run([generate, typelib], stdout=subprocess.PIPE, stderr=subprocess.PIPE, env=env, timeout=timeout)
    return p.returncode, p.stdout, p.stderr.decode('utf-8', 'replace')[-500:]


class GenJoin(object):
    """pairs the elements of the XML g-ir-generate wrote with the decoded blobs (positionally per kind)"""

    def __init__(self, docid, dec, xml_bytes, indices=None):
        self.id = docid
        self.dec = dec
        self.P = Proj(dec)
        self.own = dec['header']['namespace']
        self.obs = []
        self.roles = {}
        self.indices = indices
        self.root = ET.fromstring(xml_bytes)

    def rec(self, path, kind, g, x, role):
        oid = '%s|%s|%s' % (self.id, path, kind)
        self.roles[oid] = role
        self.obs.append(dict(id=oid, kind=kind, found=x is not None, env=NOENV_KEY, g=g, b=x if x is not None else DUMMY))

    # ---- XML side
    def xtype(self, el):
        out = []

        def walk(t):
            a = _at(t)
            kids = _kids(t, 'type', 'array')
            q = _qref(self.own, a.get('name', ''))
            out.append(dict(el=_ln(t.tag), name=a.get('name', ''), qns=q['ns'], qn=q['n'], length=_int(a.get('length')),
                            fixed=_int(a.get('fixed-size')), zt=a.get('zero-terminated', ''), n=len(kids)))
            for k in kids:
                walk(k)
        ts = _kids(el, 'type', 'array')
        if ts:
            walk(ts[0])
        return out

    def xcallable(self, el):
        a = _at(el)
        rv = _kids(el, 'return-value')
        ra = _at(rv[0]) if rv else {}
        ps = _kids(el, 'parameters')
        args = []
        for p in (_kids(ps[0], 'parameter') if ps else []):
            pa = _at(p)
            args.append(dict(name=pa.get('name', ''), transfer=pa.get('transfer-ownership', ''), direction=pa.get('direction', ''),
                             ca=pa.get('caller-allocates', ''), allow_none=pa.get('allow-none', ''), retval=pa.get('retval', ''),
                             optional=pa.get('optional', ''), scope=pa.get('scope', ''), closure=_int(pa.get('closure')),
                             destroy=_int(pa.get('destroy')), skip=pa.get('skip', ''), attrs=_xattrs(p), type=self.xtype(p)))
        return dict(tag=_ln(el.tag), name=a.get('name', ''), cid=a.get('c:identifier', ''), deprecated=a.get('deprecated', ''),
                    throws=a.get('throws', ''), setprop=a.get('glib:set-property', ''), getprop=a.get('glib:get-property', ''),
                    rtransfer=ra.get('transfer-ownership', ''), rnull=ra.get('allow-none', ''), rskip=ra.get('skip', ''),
                    rtype=self.xtype(rv[0]) if rv else [], args=args, attrs=_xattrs(el), rattrs=_xattrs(rv[0]) if rv else [],
                    when=a.get('when', ''), no_recurse=a.get('no-recurse', ''), detailed=a.get('detailed', ''), action=a.get('action', ''),
                    no_hooks=a.get('no-hooks', ''), offset=_int(a.get('offset')), invoker=a.get('invoker', ''))

    # ---- decoded side
    def gcallable(self, ckind, blob, container=None):
        sig = blob['signature']
        g = dict(own=self.own, ckind=ckind, name=blob['name'], deprecated=blob.get('deprecated', 0), symbol=blob.get('symbol', ''),
                 constructor=blob.get('constructor', 0), is_static=blob.get('is_static', 0), setter=blob.get('setter', 0),
                 getter=blob.get('getter', 0), prop_name='', blob_throws=blob.get('throws', 0) if ckind in ('function', 'vfunc') else 0,
                 sig={k: sig[k] for k in ('may_return_null', 'caller_owns_return_value', 'caller_owns_return_container', 'skip_return',
                                          'throws')},
                 rtype=self.P.type(sig['return_type']), attrs=self.P.attrs(blob['at']), rattrs=self.P.attrs(sig['at']), args=[])
        if ckind == 'function' and container is not None and (g['setter'] or g['getter']):
            props = container.get('properties', [])
            g['prop_name'] = props[blob['index']]['name'] if blob['index'] < len(props) else ''
        for ab in sig['args']:
            d = {k: ab[k] for k in ('name', 'in', 'out', 'caller_allocates', 'nullable', 'optional', 'transfer_ownership',
                                    'transfer_container_ownership', 'return_value', 'scope', 'skip', 'closure', 'destroy')}
            d['attrs'] = self.P.attrs(ab['at'])
            d['type'] = self.P.type(ab['type'])
            g['args'].append(d)
        return g

    def callable(self, path, kind, ckind, blob, el, container, role):
        g = self.gcallable(ckind, blob, container)
        if ckind == 'signal':
            g.update({k: blob[k] for k in ('run_first', 'run_last', 'run_cleanup', 'no_recurse', 'detailed', 'action', 'no_hooks')})
        if ckind == 'vfunc':
            ms = (container or {}).get('methods', [])
            g.update(struct_offset=blob['struct_offset'], invoker=blob['invoker'], methods=[x['name'] for x in ms])
        self.rec(path, kind, g, self.xcallable(el) if el is not None else None, role)

    def constant(self, path, blob, el, role):
        from .tlgir import const_canon
        g = dict(own=self.own, name=blob['name'], type=self.P.type(blob['type']), value=blob['value'], attrs=self.P.attrs(blob['at']))
        x = None
        if el is not None:
            a = _at(el)
            t = blob['type']
            text = a.get('value', '')
            tn = tlabs.TAGS[t['tag']] if t['simple'] and t['tag'] < len(tlabs.TAGS) else ''
            try:        # the written literal as the value it denotes (same canonical form as the decoded side)
                canon = const_canon([dict(k='basic', rname=tn)], text) if tn not in ('utf8', 'filename', '') else text
            except ValueError:
                canon = 'unparsable:' + text
            x = dict(name=a.get('name', ''), type=self.xtype(el), value=canon, attrs=_xattrs(el))
        self.rec(path, 'gen_constant', g, x, role)

    def container(self, path, blob, el, role):
        P = self.P
        bt = blob['blob_type']
        fn = lambda sec: [m['name'] for m in blob.get(sec, [])]
        g = dict(own=self.own, bt=bt, name=blob['name'], deprecated=blob.get('deprecated', 0), gtype_name=blob.get('gtype_name', ''),
                 gtype_init=blob.get('gtype_init', ''), is_gtype_struct=blob.get('is_gtype_struct', 0), foreign=blob.get('foreign', 0),
                 copy_func=blob.get('copy_func', ''), free_func=blob.get('free_func', ''), error_domain=blob.get('error_domain', ''),
                 abstract=blob.get('abstract', 0), final=blob.get('final', 0), fundamental=blob.get('fundamental', 0),
                 ref_func=blob.get('ref_func', ''), unref_func=blob.get('unref_func', ''), set_value_func=blob.get('set_value_func', ''),
                 get_value_func=blob.get('get_value_func', ''), parent=P.refof(blob.get('parent', 0)),
                 gtype_struct=P.refof(blob.get('gtype_struct', 0)),
                 refs=[P.refof(i) for i in blob.get('interfaces', blob.get('prerequisites', []))],
                 fields=fn('fields'), methods=fn('methods'), properties=fn('properties'), signals=fn('signals'), vfuncs=fn('vfuncs'),
                 constants=fn('constants'),
                 values=[dict(name=v['name'], deprecated=v['deprecated'], u=v['unsigned_value'], signed=str(v['value']),
                              unsigned=str(v['value'] & 0xffffffff)) for v in blob.get('values', [])],
                 attrs=P.attrs(blob['at']))
        x = None
        groups = {}
        if el is not None:
            a = _at(el)
            groups = dict(fields=_kids(el, 'field'), methods=_kids(el, 'function', 'method', 'constructor'), properties=_kids(el, 'property'),
                          signals=_kids(el, 'glib:signal'), vfuncs=_kids(el, 'virtual-method'), constants=_kids(el, 'constant'))
            nm = lambda lst: [c.get('name', '') for c in lst]
            refs = [_qref(self.own, c.get('name', '')) for c in _kids(el, 'implements', 'prerequisite')]
            x = dict(tag=_ln(el.tag), name=a.get('name', a.get('glib:name', '')), deprecated=a.get('deprecated', ''),
                     type_name=a.get('glib:type-name', ''), get_type=a.get('glib:get-type', ''),
                     is_gtype_struct=a.get('glib:is-gtype-struct', '') or ('1' if a.get('glib:is-gtype-struct-for') else ''),
                     foreign=a.get('foreign', ''), copy=a.get('copy-function', ''), free=a.get('free-function', ''),
                     error_domain=a.get('glib:error-domain', ''), abstract=a.get('abstract', ''), final=a.get('final', ''),
                     fundamental=a.get('glib:fundamental', ''),
                     ref=a.get('glib:ref-func', a.get('glib:ref-function', '')), unref=a.get('glib:unref-func', a.get('glib:unref-function', '')),
                     setv=a.get('glib:set-value-func', a.get('glib:set-value-function', '')),
                     getv=a.get('glib:get-value-func', a.get('glib:get-value-function', '')),
                     parent=_qref(self.own, a.get('parent', '')), type_struct=_qref(self.own, a.get('glib:type-struct', '')), refs=refs,
                     fields=nm(groups['fields']), methods=nm(groups['methods']), properties=nm(groups['properties']),
                     signals=nm(groups['signals']), vfuncs=nm(groups['vfuncs']), constants=nm(groups['constants']),
                     values=[dict(name=c.get('name', ''), deprecated=c.get('deprecated', ''), text=c.get('value', ''))
                             for c in _kids(el, 'member')],
                     attrs=_xattrs(el))
        self.rec(path, 'gen_container', g, x, role)
        if el is None:
            return

        def nth(sec, i):
            lst = groups.get(sec, [])
            return lst[i] if i < len(lst) else None
        for i, m in enumerate(blob.get('fields', [])):
            fe = nth('fields', i)
            fg = dict(own=self.own, name=m['name'], readable=m['readable'], writable=m['writable'], bits=m['bits'],
                      has_embedded_type=m['has_embedded_type'], type=P.type(m['type']) if 'type' in m else [], attrs=P.attrs(m['at']))
            fx = None
            if fe is not None:
                fa = _at(fe)
                cb = _kids(fe, 'callback')
                fx = dict(name=fa.get('name', ''), readable=fa.get('readable', ''), writable=fa.get('writable', ''), bits=_int(fa.get('bits')),
                          has_callback=bool(cb), cbname=cb[0].get('name', '') if cb else '', type=self.xtype(fe), attrs=_xattrs(fe))
                if cb and 'callback' in m:
                    self.callable('%s/field%d/cb' % (path, i), 'gen_callback', 'callback', m['callback'], cb[0], None, role + '/field/callback')
            self.rec('%s/field%d' % (path, i), 'gen_field', fg, fx, role + '/field')
        for i, m in enumerate(blob.get('methods', [])):
            self.callable('%s/method%d' % (path, i), 'gen_function', 'function', m, nth('methods', i), blob, role + '/method')
        for i, m in enumerate(blob.get('properties', [])):
            ms = blob.get('methods', [])
            pg = {k: m[k] for k in ('name', 'deprecated', 'readable', 'writable', 'construct', 'construct_only', 'transfer_ownership',
                                    'transfer_container_ownership')}
            pg.update(own=self.own, setter=m['setter'], getter=m['getter'], methods=[x['name'] for x in ms], type=P.type(m['type']),
                      attrs=P.attrs(m['at']))
            pe = nth('properties', i)
            px = None
            if pe is not None:
                pa = _at(pe)
                px = dict(name=pa.get('name', ''), deprecated=pa.get('deprecated', ''), readable=pa.get('readable', ''),
                          writable=pa.get('writable', ''), construct=pa.get('construct', ''), construct_only=pa.get('construct-only', ''),
                          setter=pa.get('setter', ''), getter=pa.get('getter', ''), transfer=pa.get('transfer-ownership', ''),
                          type=self.xtype(pe), attrs=_xattrs(pe))
            self.rec('%s/prop%d' % (path, i), 'gen_property', pg, px, role + '/property')
        for i, m in enumerate(blob.get('signals', [])):
            self.callable('%s/signal%d' % (path, i), 'gen_signal', 'signal', m, nth('signals', i), blob, role + '/signal')
        for i, m in enumerate(blob.get('vfuncs', [])):
            self.callable('%s/vfunc%d' % (path, i), 'gen_vfunc', 'vfunc', m, nth('vfuncs', i), blob, role + '/vfunc')
        for i, m in enumerate(blob.get('constants', [])):
            self.constant('%s/const%d' % (path, i), m, nth('constants', i), role + '/constant')

    def run(self):
        dec = self.dec
        h = dec['header']
        nsel = [c for c in self.root if _ln(c.tag) == 'namespace']
        incs = ['%s-%s' % (c.get('name', ''), c.get('version', '')) for c in self.root if _ln(c.tag) == 'include']
        local = [e for e in dec['directory'] if e['local']]
        g = dict(namespace=h['namespace'], nsversion=h['nsversion'], shared_library=h['shared_library'], c_prefix=h['c_prefix'],
                 deps=h['dependencies'].split('|') if h['dependencies'] else [], entries=[dict(bt=e['blob_type'], name=e['name']) for e in local])
        x = None
        els = []
        if nsel:
            na = _at(nsel[0])
            els = [c for c in nsel[0] if _ln(c.tag) != 'attribute']
            x = dict(name=na.get('name', ''), version=na.get('version', ''), shlib=na.get('shared-library', ''),
                     cprefix=na.get('c:prefix', na.get('c:identifier-prefixes', '')), includes=incs,
                     entries=[dict(tag=_ln(c.tag), name=c.get('name', c.get('{http://www.gtk.org/introspection/glib/1.0}name', ''))) for c in els])
        self.rec('', 'gen_namespace', g, x, 'namespace')
        want = self.indices if self.indices is not None else range(len(local))
        for i in want:
            if i >= len(dec['entries']) or i >= len(els):
                continue
            blob, el = dec['entries'][i], els[i]
            k = blob.get('kind')
            path = blob.get('name', '?')
            if k == 'function':
                self.callable(path, 'gen_function', 'function', blob, el, None, 'function')
            elif k == 'callback':
                self.callable(path, 'gen_callback', 'callback', blob, el, None, 'callback')
            elif k == 'constant':
                self.constant(path, blob, el, 'constant')
            elif k in KINDOF:
                self.container(path, blob, el, k)
        return self.obs, self.roles


def gen_join(docid, dec, xml_bytes, indices=None):
    return GenJoin(docid, dec, xml_bytes, indices).run()


# ----------------------------------------------------------------------------- C09 worker (one typelib per task)
def c09_worker(task):
    """task = dict(compiler, generate, walk, workdir, deps, cid, doc | None, path, dirs, ns, version, indices, calibrate, keep, probes)
    -> dict(cid, obs, roles, notes, case, runs)"""
    import shutil
    from . import tlgir as T
    t = task
    notes, obs, roles = [], [], {}
    cid = t['cid']
    path, dirs, ns, version = t.get('path'), t.get('dirs'), t.get('ns'), t.get('version')
    case = dict(kind='typelib', path=path, ns=ns, version=version, indices=t.get('indices'))
    runs = 0
    docdir = None
    if t.get('doc') is not None:
        doc = t['doc']
        comp = T.compile_doc(t['compiler'], t['workdir'], doc, name=cid, twice=False)
        runs += 1
        case = dict(kind='doc', doc=doc, docid=cid)
        if comp.rc != 0 or comp.dec is None:
            notes.append('compiler rejected %s (rc=%s): %s %s' % (cid, comp.rc, comp.stderr.strip()[-200:], comp.decode_error))
            return dict(cid=cid, obs=obs, roles=roles, notes=notes, case=case, runs=runs)
        path = comp.path
        docdir = os.path.dirname(path)
        dirs = [docdir, t['deps']]
        ns, version = doc['ns'], doc['version']
    dec = tlabs.decode(path)

    def add(oid, kind, g, b, role, found=True):
        obs.append(dict(id=oid, kind=kind, found=found, env=NOENV_KEY, g=g, b=b))
        roles[oid] = role
    if t.get('calibrate'):
        P = Proj(dec)
        add('%s||layout' % cid, 'layout', DUMMY, P.layout(), 'calibration')
        for b in dec['entries']:
            if b.get('kind') in T.CONTAINER_KINDS:
                add('%s|%s|container' % (cid, b['name']), 'container', DUMMY, P.container(b), 'calibration')
    hdr, lines, rc, err = run_walk(t['walk'], ':'.join(dirs), ns, version, probes=t.get('probes', ()), indices=t.get('indices'),
                                   tmpdir=docdir or t['workdir'])
    runs += 1
    if rc != 0 or hdr is None:
        notes.append('%s: drv_walk rc=%s after %d entries: %s' % (cid, rc, len(lines), err.strip()[-300:]))
    o, r = join(cid, dec, hdr, lines, indices=t.get('indices'))
    obs += o
    roles.update(r)
    grc, xml, gerr = run_generate(t['generate'], path, dirs)
    runs += 1
    ok = grc == 0 and bool(xml.strip())
    if ok:
        try:
            o, r = gen_join(cid, dec, xml, t.get('indices'))
            obs += o
            roles.update(r)
        except ET.ParseError as ex:
            notes.append('%s: g-ir-generate wrote XML that does not parse: %s' % (cid, ex))
            ok = False
    else:
        notes.append('%s: g-ir-generate rc=%s: %s' % (cid, grc, gerr.strip()[-300:]))
    if not ok:
        add('%s||gen_namespace' % cid, 'gen_namespace', DUMMY, DUMMY, 'namespace', found=False)
    if docdir and not t.get('keep'):
        shutil.rmtree(docdir, ignore_errors=True)
    return dict(cid=cid, obs=obs, roles=roles, notes=notes, case=case, runs=runs)

import sys, types, os, io
sys.path.insert(0, '/repo')
m = types.ModuleType('giscanner._giscanner'); m.SourceScanner = type('S',(),{}); sys.modules['giscanner._giscanner'] = m
os.environ['GI_SCANNER_DISABLE_CACHE'] = '1'
import builtins
builtins.__dict__['DATADIR'] = '/nonexistent'; builtins.__dict__['GIR_DIR'] = '/nonexistent'
from giscanner import ast, message
from giscanner.sourcescanner import *
from giscanner.transformer import Transformer
from giscanner.maintransformer import MainTransformer
from giscanner.introspectablepass import IntrospectablePass
from giscanner.annotationparser import GtkDocCommentBlockParser
from giscanner.girwriter import GIRWriter
from giscanner.girparser import GIRParser
class RT:
    def __init__(self, type, name=None, base_type=None, qual=0, children=(), is_bitfield=False, fspec=0):
        self.type=type; self.name=name; self.base_type=base_type; self.type_qualifier=qual
        self.child_list=list(children); self.is_bitfield=is_bitfield; self.function_specifier=fspec; self.storage_class_specifier=0
class RS:
    def __init__(self, type, ident, base_type=None, const_int=None, const_string=None, const_double=None, const_boolean=None, filename='/src/foo.h', line=1, private=False):
        self.type=type; self.ident=ident; self.base_type=base_type; self.const_int=const_int; self.const_string=const_string
        self.const_double=const_double; self.const_boolean=const_boolean; self.source_filename=filename; self.line=line; self.private=private
def basic(n, q=0): return RT(CTYPE_BASIC_TYPE, n, qual=q)
def tdef(n, q=0): return RT(CTYPE_TYPEDEF, n, qual=q)
def ptr(t, q=0): return RT(CTYPE_POINTER, base_type=t, qual=q)
def param(n, t): return RS(CSYMBOL_TYPE_OBJECT, n, t)
ELLIPSIS = RS(CSYMBOL_TYPE_ELLIPSIS, None, None)
def func(name, ret, params, line=1):
    return RS(CSYMBOL_TYPE_FUNCTION, name, RT(CTYPE_FUNCTION, base_type=ret, children=params), line=line)
def cbtypedef(name, ret, params, line=1):
    return RS(CSYMBOL_TYPE_TYPEDEF, name, ptr(RT(CTYPE_FUNCTION, base_type=ret, children=params)), line=line)
def scan(syms, comments=(), name='Foo', idp=('Foo',), symp=('foo',)):
    ns = ast.Namespace(name, '1.0', identifier_prefixes=list(idp), symbol_prefixes=list(symp))
    out = io.StringIO(); message.MessageLogger._instance = None
    logger = message.MessageLogger.get(namespace=ns, output=out); logger.enable_warnings(True)
    tr = Transformer(ns)
    blocks = GtkDocCommentBlockParser().parse_comment_blocks(list(comments))
    tr.parse([SourceSymbol(None, s) for s in syms])
    MainTransformer(tr, blocks).transform()
    IntrospectablePass(tr, blocks).validate()
    return GIRWriter(ns, ['/src']).get_encoded_xml().decode(), out.getvalue(), ns

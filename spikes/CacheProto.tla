---- MODULE CacheProto ----
EXTENDS Naturals, FiniteSets, Sequences, TLC
CONSTANTS Procs, MaxEdits, Roles   \* Roles: [Procs -> {"load","store"}]
None == [k |-> "none"]
VARIABLES clock, srcVer, srcMtime, srcHist, entry, nextIno, pc, fd, stMtime, parsed, result, winStart, edits
vars == <<clock, srcVer, srcMtime, srcHist, entry, nextIno, pc, fd, stMtime, parsed, result, winStart, edits>>
\* entry: None or [k|->"file", ino, ver, mtime]
Init == /\ clock = 1 /\ srcVer = 1 /\ srcMtime = 0 /\ srcHist = <<[ver |-> 1, from |-> 0]>>
        /\ entry = None /\ nextIno = 1
        /\ pc = [p \in Procs |-> "start"] /\ fd = [p \in Procs |-> None]
        /\ stMtime = [p \in Procs |-> 0] /\ parsed = [p \in Procs |-> 0]
        /\ result = [p \in Procs |-> [k |-> "pending", ver |-> 0]] /\ winStart = [p \in Procs |-> 0] /\ edits = 0
Tick(v) == v' = v + 1
EditSrc == /\ edits < MaxEdits /\ edits' = edits + 1 /\ srcVer' = srcVer + 1 /\ srcMtime' = clock
           /\ srcHist' = Append(srcHist, [ver |-> srcVer + 1, from |-> clock]) /\ clock' = clock + 1
           /\ UNCHANGED <<entry, nextIno, pc, fd, stMtime, parsed, result, winStart>>
\* ---- load ----
LOpen(p) == /\ Roles[p] = "load" /\ pc[p] = "start" /\ winStart' = [winStart EXCEPT ![p] = clock]
            /\ IF entry = None THEN pc' = [pc EXCEPT ![p] = "done"] /\ result' = [result EXCEPT ![p] = [k |-> "none", ver |-> 0]] /\ fd' = fd
               ELSE pc' = [pc EXCEPT ![p] = "l_stat"] /\ fd' = [fd EXCEPT ![p] = entry] /\ result' = result
            /\ clock' = clock + 1 /\ UNCHANGED <<srcVer, srcMtime, srcHist, entry, nextIno, stMtime, parsed, edits>>
LStat(p) == /\ pc[p] = "l_stat"
            /\ IF entry = None THEN pc' = [pc EXCEPT ![p] = "done"] /\ result' = [result EXCEPT ![p] = [k |-> "none", ver |-> 0]] /\ stMtime' = stMtime
               ELSE pc' = [pc EXCEPT ![p] = "l_statsrc"] /\ stMtime' = [stMtime EXCEPT ![p] = entry.mtime] /\ result' = result
            /\ clock' = clock + 1 /\ UNCHANGED <<srcVer, srcMtime, srcHist, entry, nextIno, fd, parsed, winStart, edits>>
LStatSrc(p) == /\ pc[p] = "l_statsrc"
               /\ IF stMtime[p] >= srcMtime THEN pc' = [pc EXCEPT ![p] = "l_read"] /\ result' = result
                  ELSE pc' = [pc EXCEPT ![p] = "done"] /\ result' = [result EXCEPT ![p] = [k |-> "none", ver |-> 0]]
               /\ clock' = clock + 1 /\ UNCHANGED <<srcVer, srcMtime, srcHist, entry, nextIno, fd, stMtime, parsed, winStart, edits>>
LRead(p) == /\ pc[p] = "l_read" /\ pc' = [pc EXCEPT ![p] = "done"] /\ result' = [result EXCEPT ![p] = [k |-> "data", ver |-> fd[p].ver]]
            /\ clock' = clock + 1 /\ UNCHANGED <<srcVer, srcMtime, srcHist, entry, nextIno, fd, stMtime, parsed, winStart, edits>>
\* ---- parse + store ----
SParse(p) == /\ Roles[p] = "store" /\ pc[p] = "start" /\ parsed' = [parsed EXCEPT ![p] = srcVer] /\ pc' = [pc EXCEPT ![p] = "s_check"]
             /\ clock' = clock + 1 /\ UNCHANGED <<srcVer, srcMtime, srcHist, entry, nextIno, fd, stMtime, result, winStart, edits>>
SCheck(p) == /\ pc[p] = "s_check"
             /\ IF entry # None /\ entry.mtime >= srcMtime THEN pc' = [pc EXCEPT ![p] = "done"] ELSE pc' = [pc EXCEPT ![p] = "s_write"]
             /\ clock' = clock + 1 /\ UNCHANGED <<srcVer, srcMtime, srcHist, entry, nextIno, fd, stMtime, parsed, result, winStart, edits>>
SWrite(p) == /\ pc[p] = "s_write" /\ stMtime' = [stMtime EXCEPT ![p] = clock] /\ pc' = [pc EXCEPT ![p] = "s_rename"]
             /\ clock' = clock + 1 /\ UNCHANGED <<srcVer, srcMtime, srcHist, entry, nextIno, fd, parsed, result, winStart, edits>>
SRename(p) == /\ pc[p] = "s_rename" /\ entry' = [k |-> "file", ino |-> nextIno, ver |-> parsed[p], mtime |-> stMtime[p]]
              /\ nextIno' = nextIno + 1 /\ pc' = [pc EXCEPT ![p] = "done"]
              /\ clock' = clock + 1 /\ UNCHANGED <<srcVer, srcMtime, srcHist, fd, stMtime, parsed, result, winStart, edits>>
Next == EditSrc \/ \E p \in Procs : LOpen(p) \/ LStat(p) \/ LStatSrc(p) \/ LRead(p) \/ SParse(p) \/ SCheck(p) \/ SWrite(p) \/ SRename(p)
Spec == Init /\ [][Next]_vars
\* version v was current at some time in [a, b]
CurrentDuring(v, a, b) == \E i \in 1..Len(srcHist) : /\ srcHist[i].ver = v /\ srcHist[i].from <= b
                            /\ (i = Len(srcHist) \/ srcHist[i+1].from > a)
NoStale == \A p \in Procs : (pc[p] = "done" /\ result[p].k = "data") => CurrentDuring(result[p].ver, winStart[p], clock)
====

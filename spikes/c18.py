import sys, types, os, tempfile, pickle
sys.path.insert(0, '/repo')
m = types.ModuleType('giscanner._giscanner'); m.SourceScanner = type('S',(),{}); sys.modules['giscanner._giscanner'] = m
d = tempfile.mkdtemp(); os.environ['XDG_CACHE_HOME'] = d
from giscanner import cachestore
cs = cachestore.CacheStore()
src = os.path.join(d, 'Dep-1.0.gir'); open(src,'w').write('v1'); os.utime(src, (1000,1000))
# P1 stores parse of v1 at t=1001
cs.store(src, 'PARSE(v1)'); ent = cs._get_filename(src); os.utime(ent, (1001,1001))
# source edited to v2 at t=2000  -> entry is now stale
open(src,'w').write('v2'); os.utime(src, (2000,2000))
assert cs.load(src) is None, 'stale entry must not be used (sequential case is fine)'
# Now the race: reader opens the stale entry, then a writer renames a fresh entry (parse of v2, t=2001) into place
real_stat = os.stat
state = {'armed': True}
class OSProxy:
    def __getattr__(self, n): return getattr(os, n)
    def stat(self, p, *a, **k):
        if state['armed'] and p == ent:
            state['armed'] = False
            tmp = ent + '.new'; pickle.dump('PARSE(v2)', open(tmp,'wb')); os.utime(tmp, (2001,2001)); os.rename(tmp, ent)
        return real_stat(p, *a, **k)
cachestore.os = OSProxy()
r = cs.load(src)
print('load returned:', r, '| source currently holds:', open(src).read())

from lib import *
import re
V = basic('void')
for order in (['foo_a','foo_b','foo_c'], ['foo_c','foo_b','foo_a'], ['foo_b','foo_a','foo_c']):
    syms = [func(n, V, [param('x', basic('int'))], line=i+1) for i,n in enumerate(order)]
    comments=[("/**\n * foo_a: (rename-to foo_b)\n * @x: x\n */", '/src/foo.c', 1),
              ("/**\n * foo_b: (rename-to foo_c)\n * @x: x\n */", '/src/foo.c', 10),
              ("/**\n * foo_c:\n * @x: x\n */", '/src/foo.c', 20)]
    xml, warns, ns = scan(syms, comments)
    print(order)
    for line in xml.splitlines():
        if '<function ' in line: print('  ', re.sub(r'\s+',' ',line.strip()))
    nxt = [l for l in xml.splitlines()]
    import xml.etree.ElementTree as ET
    root = ET.fromstring(xml)
    for f in root.iter('{http://www.gtk.org/introspection/core/1.0}function'):
        print('   ', f.get('name'), 'shadows=', f.get('shadows'), 'shadowed-by=', f.get('shadowed-by'))
    print('   warnings:', warns.strip()[:200])

from lib import *
import tempfile, os
ns = ast.Namespace('Foo','1.0')
b = ast.Boxed('Thing', gtype_name='FooThing', get_type='foo_thing_get_type', c_symbol_prefix='thing')
f = ast.Function('make', ast.Return(ast.TYPE_INT.clone(), transfer='none'), [], False, 'foo_thing_make')
b.static_methods.append(f)
ns.append(b)
rec = ast.Record('R', ctype='FooR'); 
fn = ast.Function('g', ast.Return(ast.TYPE_NONE.clone(), transfer='none'), [ast.Parameter('p', ast.Type(ctype='Bar*', target_foreign='Bar'), transfer='none')], False, 'foo_g')
fn.retval.skip = True
ns.append(rec); ns.append(fn)
x1 = GIRWriter(ns).get_encoded_xml()
p = os.path.join(tempfile.mkdtemp(), 'Foo-1.0.gir'); open(p,'wb').write(x1)
gp = GIRParser(types_only=False); gp.parse(p)
x2 = GIRWriter(gp.get_namespace()).get_encoded_xml()
print(x1 == x2)
import difflib
print('\n'.join(difflib.unified_diff(x1.decode().splitlines(), x2.decode().splitlines(), lineterm='', n=0)))

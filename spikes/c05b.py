from lib import *
import re, subprocess, os
V = basic('void')
syms = [
 func('foo_f', V, [param('cb', tdef('FooCbAlias'))], line=1),
 cbtypedef('FooCb0', V, [param('n', basic('int')), ELLIPSIS], line=4),
 RS(CSYMBOL_TYPE_TYPEDEF, 'FooCbAlias', tdef('FooCb0'), line=5),
]
comments=[("/**\n * foo_f:\n * @cb: (scope call): cb\n */", '/src/foo.c', 1)]
xml, warns, ns = scan(syms, comments)
for line in xml.splitlines():
    if re.search(r'<(function|callback|alias|type) ', line): print(line.strip())
print(warns)
open('/tmp/spike/build/t/Foo2-1.0.gir','w').write(xml.replace('name="Foo"','name="Foo2"'))
r = subprocess.run(['/tmp/spike/build/g-ir-compiler','/tmp/spike/build/t/Foo2-1.0.gir','-o','/tmp/spike/build/t/Foo2-1.0.typelib'],capture_output=True,text=True)
print('compiler exit', r.returncode, r.stderr[:400])
